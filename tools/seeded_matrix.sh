#!/bin/bash
# tools/seeded_matrix.sh [keys...] — applies every seeded/<key>/patch.diff to /repo in turn, runs the quick check of
# the property it was written against WITHOUT the regression tier (generators only), reverts, and records the
# result in seeded/matrix.json.  /repo must be clean before and is clean afterwards.
cd /verif
[ -z "$(git -C /repo status --porcelain)" ] || { echo "/repo is not clean"; exit 2; }
trap 'git -C /repo checkout -- . 2>/dev/null' EXIT
KEYS="$@"
[ -n "$KEYS" ] || KEYS=$(ls -d seeded/C??-* | xargs -n1 basename | sort -V)
TMP=$(mktemp)
for key in $KEYS; do
  id=${key%%-*}
  P=/verif/seeded/$key/patch.diff
  if ! git -C /repo apply --check $P 2>/dev/null; then
    res="{\"mutant\":\"$key\",\"applies\":false}"
  else
    git -C /repo apply $P
    s=$(date +%s)
    out=$(VERIF_NO_REGRESS=1 bin/check $id quick 2>&1); rc=$?
    e=$(date +%s)
    msg=$(echo "$out" | grep -E "^$id: " | head -1 | cut -c1-300 | python3 -c "import json,sys;print(json.dumps(sys.stdin.read().strip()))")
    nv=$(echo "$out" | grep -c VIOLATION)
    res="{\"mutant\":\"$key\",\"applies\":true,\"check\":\"$id\",\"rc\":$rc,\"violation_lines\":$nv,\"seconds\":$((e-s)),\"first_message\":$msg}"
    git -C /repo checkout -- .
  fi
  echo "$res" >> $TMP
  echo "$res" | cut -c1-200
done
python3 - $TMP <<'PY'
import json, sys, os
path = "/verif/seeded/matrix.json"
old = {m["mutant"]: m for m in json.load(open(path))} if os.path.exists(path) else {}
for line in open(sys.argv[1]):
    m = json.loads(line); old[m["mutant"]] = m
def k(x):
    a, b = x.split("-"); return (a, int(b))
json.dump([old[x] for x in sorted(old, key=k)], open(path, "w"), indent=0)
PY
rm -f $TMP
echo MATRIXDONE
