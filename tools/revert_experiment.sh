#!/bin/bash
# tools/revert_experiment.sh <fix-commit> <ID> [regress files...]
# Sensitivity experiment: undo one fix in /repo's working tree, run the regression replays and the
# quick check WITHOUT the regression tier, restore /repo. Prints what was detected.
C="$1"; ID="$2"; shift 2
cd /repo || exit 2
[ -z "$(git status --porcelain --untracked-files=no)" ] || { echo "/repo not clean"; exit 2; }
git revert --no-commit "$C" >/dev/null 2>&1 || { echo "revert of $C failed"; git revert --abort 2>/dev/null; git reset -q --hard HEAD; exit 2; }
trap 'git -C /repo revert --abort 2>/dev/null; git -C /repo reset -q --hard HEAD' EXIT
cd /verif
for f in "$@"; do
  out=$(bin/check "$ID" --replay "$f" 2>&1); echo "  replay $(basename $f): rc=$? $(echo "$out" | grep -c VIOLATION) violation line(s)"
done
out=$(VERIF_NO_REGRESS=1 bin/check "$ID" quick 2>&1); rc=$?
echo "  quick (generator only): rc=$rc $(echo "$out" | grep -E 'VIOLATION|held on|HARNESS' | head -1 | cut -c1-160)"
