#!/usr/bin/env python3
"""Writes /verif/MANIFEST.json from the table below (run after adding / changing a check)."""
import json, subprocess, os
ROOT = os.path.dirname(os.path.dirname(os.path.abspath(__file__)))
T = {
 "C01": ("exploration", "differential: generated positions / games vs independent reference move generator (sets of UCI strings, perft splits)",
         "Generated-input search (proptest, fixed work): positions by construction, histories played on one engine board; the four observation points of the property are each compared with an independent mailbox move generator that is validated against published perft counts at every start. Exploration is the right level: the domain (all legal positions) is infinite and the oracle is exact, so any counterexample found is real; absence is evidenced by class histograms (pins, e.p. exposure, double check, castling, promotion).", "3 C01",
         "reference model correct (perft self-test); positions sane but not proven reachable"),
 "C02": ("exploration", "differential: make() vs reference successor, FEN compared field by field, along 300-ply games and over all legal moves", "Exact oracle (reference successor function) over generated (position, move) pairs incl. clocks up to 10^9 / 4*10^9.", "3 C02", "reference apply() correct; move object looked up in the engine's pseudo-legal list by UCI text"),
 "C03": ("exploration", "invariant over histories: snapshot before make == after unmake, every pseudo-legal move and whole lines", "Snapshot invariant needs no reference; every pseudo-legal move of each generated position is exercised, clocks concentrated on the 7-bit / 8-bit / 12-bit edges.", "3 C03", "occupancy[0] scratch slot excluded from the snapshot; half-move clock <= 4095"),
 "C04": ("exploration", "complete enumeration of all blocker subsets (102,400 rook + 5,248 bishop) and 256 leaper entries vs ray-walk oracle; exhaustive: true", "The property's whole domain is finite after the lossless mask reduction and is enumerated completely on every run (plus random full occupancies to confirm the reduction); index-in-range is checked before each unchecked lookup.", "3 C04", "hook accessors call the production lookup"),
 "C05": ("exploration", "differential: check / validity / no-legal-move status vs reference attack detection, on every pseudo-legal successor", "Exact oracle on generated positions and all their pseudo-legal successors (so 'mover left own king attacked' is dense).", "3 C05", "reference attack detection correct"),
 "C06": ("exploration", "incremental-vs-recomputed differential along games; metamorphic: same key => same hash, single-component change => different hash; exhaustive key-material enumeration (781 keys)", "Round-trip / metamorphic relations need no model of the hash itself; key material is enumerated completely through the public API.", "3 C06", "64-bit collisions between unrelated positions out of scope"),
 "C07": ("exploration", "stateful session generation on a live engine (in-process and real binary), protocol invariant + reference legality", "Real threads, generated sessions; oracle is timing-independent (count and legality of answers); time limits are watchdogs only.", "3 C07", "well-behaved GUI; K1 excluded by construction and probed once"),
 "C08": ("exploration", "differential: engine score / best move vs plain alpha-beta reference (no TT/killers/deepening) and an exhaustive forced-mate solver", "Exact oracle at depth <= 3 where every table hit is at the exact draft; state carried over from earlier searches on the same instance is part of the generated case.", "3 C08", "reference search shares move generation and static evaluation with the engine (their own properties judge those)"),
 "C09": ("fault_enumeration", "injected interruption at EVERY negamax node of small search trees (both abort forms) through a cfg hook at the production poll site + sampled real-thread stop/quit/time-out schedules", "The set of interruption points of a search is finite and is enumerated completely for trees up to 1500 nodes (sampled above); each point is followed by the property's own observation (position read back, follow-up go).", "3 C09", "hook forces the regular poll at a chosen node: superset of the real polling points, same code path"),
 "C10": ("exploration", "model-based: repetition counter vs naive count on generated hash histories and real games; differential / bound checks of engine scores for constructed 2nd / 3rd occurrences, forced repetitions and half-move clocks 0..150", "Generated histories with dense repeats; engine-level cases constructed so that draw and non-draw valuations differ.", "3 C10", "contempt read through hook; either sign accepted"),
 "C11": ("exploration", "metamorphic colour-flip relation on static evaluation and fixed-depth search; sign / monotonicity of terminal scores", "Metamorphic relation needs no expected values; all material profiles and both colours generated.", "3 C11", "hook accessors for static evaluation and score conversion"),
 "C12": ("exploration", "round-trip and decode-compare on generated positions; grammar-fault mutation (13 classes) must be rejected; arbitrary / mutated strings must not panic", "Three generated-input searches with exact oracles (reference position, reject, no panic).", "3 C12", "in-grammar mutations not asserted to fail"),
 "C13": ("exploration", "model-based: string / list / operation sequences on one board with the reference position as model; snapshot unchanged on rejection", "Per position all pseudo-legal strings, promotion-letter variants and a sample (thorough: all 24,576) of the grid.", "3 C13", "white-space padding only checked for consistency"),
 "C14": ("exploration", "differential: SAN writer vs reference SAN; round trip through the parser; parser as a relation over SAN-shaped strings", "Exact oracle (reference SAN by the PGN standard) over all legal moves of generated positions, many-like-pieces profiles.", "3 C14", "check suffix in parser input treated as annotation"),
 "C15": ("exploration", "grammar-based generation of command ASTs vs independently built expected values; exhaustive move-text round trip (28,672); single-fault mutation must give Err; arbitrary strings must not panic", "Generated from the UCI grammar with an independent expected-value builder.", "3 C15", "tokens separated by spaces only"),
 "C16": ("exploration", "stateful sessions against the real binary and the in-process console transmitter; independent output grammar + per-search consistency invariants + reference legality of every pv", "Observed on the actual output text of generated multi-search sessions.", "3 C16", "never sends setoption; wall-clock only via the engine's own output"),
 "C17": ("exploration", "generated PGN databases (reference SAN writer) read through a fragmenting reader: yielded == written; metamorphic: result independent of chunk size / fragmentation; replay ends in the generated final position", "Round trip + metamorphic relation over generated inputs and generated read schedules.", "3 C17", "ASCII, no quotes in tag values, no '}' in comments"),
 "C18": ("exploration", "model-based operation sequences vs reference FIFO map, compared after every operation", "Small key universe / capacities so evictions and re-insertions are dense; invariant checked at every step.", "3 C18", "hook handle over the private table"),
 "C19": ("exploration", "structured document generation (nine shapes, optional-field subsets, escapes, generated games) + decode-and-compare against the generated document", "Generated documents; every transmitted key/value must be found in the decoded structure.", "3 C19", "bounded by offline knowledge of the Lichess schema (see DESIGN C19)"),
}
hook_commits = ["e20c046", "2bc0c0f", "f469396"]
m = {
 "version": 1,
 "setup_cmd": "bin/setup",
 "hooks": {"guard": "--cfg inkayaku_verif", "enable": "RUSTFLAGS=\"--cfg inkayaku_verif\" cargo build (set by bin/build; also harness/.cargo/config.toml)", "baseline_off_cmd": "bin/baseline_off", "source_commits": hook_commits, "add_only": True},
 "engines": [{"name": "verif-harness", "path": "harness", "serves_properties": sorted(T), "kind_free_text": "Rust crate: proptest strategies + independent reference chess model + drivers (16 shard processes), libFuzzer targets under harness/fuzz"}],
 "checks": [],
 "not_applicable": [],
 "notes": "All 19 properties are decided by generated-input search against explicit oracles (see DESIGN.md). Exit 2 = inconclusive (build failure, watchdog, harness error), never a violation. known_findings.json lists K1 (known) and the repaired defects (fixed).",
}
for pid in sorted(T):
    level, tech, text, ref, note = T[pid]
    m["checks"].append({
        "property_id": pid,
        "quick_cmd": f"bin/check {pid} quick",
        "thorough_cmd": f"bin/check {pid} thorough",
        "evidence_file": f"evidence/{pid}.json",
        "replay_cmd_template": f"bin/check {pid} --replay {{path}}",
        "engine": "verif-harness",
        "level_claimed": {"category": level, "text": text, "design_ref": ref},
        "level_note": note,
        "technique": tech,
    })
json.dump(m, open(os.path.join(ROOT, "MANIFEST.json"), "w"), indent=1)
print("wrote MANIFEST.json with", len(m["checks"]), "checks")
