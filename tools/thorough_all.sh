#!/bin/bash
# tools/thorough_all.sh [IDs...]   run the thorough tier of the given (default: all) properties in turn; log to out/thorough.log
cd "$(dirname "$0")/.." || exit 2
IDS="${@:-$(python3 -c "import json;print(' '.join(c['property_id'] for c in json.load(open('MANIFEST.json'))['checks']))")}"
mkdir -p out
for id in $IDS; do
  s=$(date +%s); out=$(bin/check "$id" thorough 2>&1); rc=$?; e=$(date +%s)
  line="$id rc=$rc $((e-s))s $(echo "$out" | grep -E 'held on|VIOLATION|HARNESS|KNOWN' | head -2 | tr '\n' ' ' | cut -c1-300)"
  echo "$line" | tee -a out/thorough.log
  cp "evidence/$id.json" "out/evidence-thorough-$id.json" 2>/dev/null
done
