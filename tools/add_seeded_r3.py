#!/usr/bin/env python3
"""Round 3: copies the confirmed area-based changes (/tmp/wt/R3<t>-out) into seeded/<property>-<n>/ (n from 5 up)."""
import json, os, shutil, glob
SRC, DST = "/tmp/wt", "/verif/seeded"
added = []
for t in "ABCDEFGHIJ":
    out = f"{SRC}/R3{t}-out"
    for n in (1, 2, 3):
        patch = f"{out}/patch{n}.diff"
        if not os.path.exists(patch):
            continue
        try:
            conf = json.load(open(f"{out}/confirm{n}.json")); meta = json.load(open(f"{out}/meta{n}.json"))
        except Exception:
            continue
        if not conf.get("ok"):
            continue
        pid = meta["property"]
        # already there?
        existing = [d for d in glob.glob(f"{DST}/{pid}-*") if os.path.exists(d + "/patch.diff") and open(d + "/patch.diff").read() == open(patch).read()]
        if existing:
            continue
        k = 5
        while os.path.exists(f"{DST}/{pid}-{k}"):
            k += 1
        d = f"{DST}/{pid}-{k}"
        os.makedirs(d)
        shutil.copy(patch, f"{d}/patch.diff")
        demo = (glob.glob(f"{out}/demo{n}.rs") + glob.glob(f"{out}/demo{n}.sh"))[0]
        ext = os.path.splitext(demo)[1]
        shutil.copy(demo, f"{d}/demo{ext}")
        key = f"{pid}-{k}"
        json.dump({
            "property": pid,
            "breaks": meta.get("summary", ""),
            "needs_to_manifest": meta.get("needs_to_manifest", ""),
            "demo": {"crate": conf.get("crate"), "file": "demo" + ext, "how": meta.get("demo_cmd", "")},
            "produced_by": f"independent sub-agent (third round, area {t}): given the text of all properties touching one area of the code and a scratch worktree, nothing from /verif; asked for changes that need a specific history / boundary / schedule to manifest",
            "agent_ran": meta.get("ran", []),
            "confirmed_here": {
                "cmd": f"bin/confirm_mutant <worktree> {out} {n}",
                "demo_passes_on_clean_tree": conf.get("demo_clean_rc") == 0,
                "demo_fails_with_patch": conf.get("demo_patched_rc") not in (0, None),
                "baseline_suite_with_patch": conf.get("suite"),
                "builds_with_hook_cfg": conf.get("hook_build_rc") == 0,
            },
            "detection": {"cmd": f"git -C /repo apply seeded/{key}/patch.diff && VERIF_NO_REGRESS=1 bin/check {pid} quick ; git -C /repo checkout -- ."},
        }, open(f"{d}/meta.json", "w"), indent=1)
        added.append((f"R3{t}-{n}", key))
print(added)
