#!/usr/bin/env python3
"""Rounds 3 and 4: copies the confirmed area-based (R3A..J) / scenario-based (R4a..h) changes from /tmp/wt/R<k><t>-out into
seeded/<property>-<n>/ (n from 5 up).  usage: add_seeded_r3.py [3|4]"""
import json, os, shutil, glob, sys
ROUND = sys.argv[1] if len(sys.argv) > 1 else "3"
TAGS = "ABCDEFGHIJ" if ROUND == "3" else "abcdefgh"
KIND = {"3": "third round, area", "4": "fourth round, usage scenario", "5": "fifth round, kind of edit", "6": "sixth round, hardest-to-notice", "7": "seventh round, hardest-to-notice, properties with few earlier changes", "8": "eighth round, hardest-to-notice"}[ROUND]
SRC, DST = "/tmp/wt", "/verif/seeded"
added = []
for t in TAGS:
    out = f"{SRC}/R{ROUND}{t}-out"
    for n in (1, 2, 3):
        patch = f"{out}/patch{n}.diff"
        if not os.path.exists(patch):
            continue
        try:
            conf = json.load(open(f"{out}/confirm{n}.json")); meta = json.load(open(f"{out}/meta{n}.json"))
        except Exception:
            continue
        if not conf.get("ok"):
            continue
        pid = meta["property"][:3]
        # already there?
        existing = [d for d in glob.glob(f"{DST}/{pid}-*") if os.path.exists(d + "/patch.diff") and open(d + "/patch.diff").read() == open(patch).read()]
        if existing:
            continue
        k = 5
        while os.path.exists(f"{DST}/{pid}-{k}"):
            k += 1
        d = f"{DST}/{pid}-{k}"
        os.makedirs(d)
        shutil.copy(patch, f"{d}/patch.diff")
        demo = (glob.glob(f"{out}/demo{n}.rs") + glob.glob(f"{out}/demo{n}.sh"))[0]
        ext = os.path.splitext(demo)[1]
        shutil.copy(demo, f"{d}/demo{ext}")
        key = f"{pid}-{k}"
        json.dump({
            "property": pid,
            "breaks": meta.get("summary", ""),
            "needs_to_manifest": meta.get("needs_to_manifest", ""),
            "demo": {"crate": conf.get("crate"), "file": "demo" + ext, "how": meta.get("demo_cmd", "")},
            "produced_by": (f"independent sub-agent (third round, area {t}): given the text of all properties touching one area of the code and a scratch worktree, nothing from /verif; asked for changes that need a specific history / boundary / schedule to manifest" if ROUND == "3" else (f"independent sub-agent (fifth round, kind of edit {t}): given a KIND OF EDIT a maintainer might make (performance optimisation in board / engine, numeric types and boundaries, defensive checks, refactoring for readability, small feature additions, threads and timing, text-format round trips), the properties it may touch in compact form and a scratch worktree, nothing from /verif; asked for honest-looking edits that misbehave only for an uncommon input class, boundary, history or usage pattern" if ROUND == "5" else (f"independent sub-agent (sixth round, property group {t}): given two or three properties in full, ALL earlier changes for them and a scratch worktree, nothing from /verif; asked for the hardest-to-notice yet realistic changes (conjunctions of rare conditions, exact boundaries, order of operations, earlier state of the same object, positions random play never produces, very long inputs, cooperating edits)" if ROUND in ("6", "7", "8") else "")) or f"independent sub-agent (fourth round, usage scenario {t}): given a usage scenario (state carried across searches, one board used for a long time, limits and time management, draws and evaluation, streaming input, UCI text, tables, search correctness), the properties it touches and a scratch worktree, nothing from /verif; asked for changes that only misbehave under a specific usage pattern"),
            "agent_ran": meta.get("ran", []),
            "confirmed_here": {
                "cmd": f"bin/confirm_mutant <worktree> {out} {n}",
                "demo_passes_on_clean_tree": conf.get("demo_clean_rc") == 0,
                "demo_fails_with_patch": conf.get("demo_patched_rc") not in (0, None),
                "baseline_suite_with_patch": conf.get("suite"),
                "builds_with_hook_cfg": conf.get("hook_build_rc") == 0,
            },
            "detection": {"cmd": f"git -C /repo apply seeded/{key}/patch.diff && VERIF_NO_REGRESS=1 bin/check {pid} quick ; git -C /repo checkout -- ."},
        }, open(f"{d}/meta.json", "w"), indent=1)
        added.append((f"R{ROUND}{t}-{n}", key))
print(added)
