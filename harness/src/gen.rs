//! Shared generators. Legal positions are produced by construction only (never by filtering
//! arbitrary boards): playouts through the reference model from a seed corpus, and synthetic
//! positions assembled piece by piece with the structural invariants enforced while building.

use std::sync::OnceLock;

use proptest::collection::vec;
use proptest::prelude::*;
use serde::{Deserialize, Serialize};

use crate::refmodel::*;

pub fn seeds() -> &'static Vec<Pos> {
    static S: OnceLock<Vec<Pos>> = OnceLock::new();
    S.get_or_init(|| {
        let text = include_str!("../../corpus/fens.txt");
        let mut v = Vec::new();
        for line in text.lines() {
            let line = line.trim();
            if line.is_empty() || line.starts_with('#') {
                continue;
            }
            let p = Pos::from_fen(line).unwrap_or_else(|| panic!("HARNESS: corpus FEN unreadable: {line}"));
            assert!(p.is_sane(), "HARNESS: corpus FEN not a sane position: {line}");
            v.push(p);
        }
        v
    })
}

/// Monotone index mapping (keeps proptest shrinking effective: smaller raw value -> smaller index).
pub fn pick(raw: u32, bits: u32, len: usize) -> usize {
    debug_assert!(len > 0);
    (((raw as u64) * (len as u64)) >> bits) as usize
}

#[derive(Clone, Copy, PartialEq, Eq, Debug, Serialize, Deserialize)]
pub enum ClockDomain {
    /// keep the clocks of the seed position
    Keep,
    /// board-level properties that only *make* moves: half-move up to 10^9, full-move up to 4*10^9
    Board,
    /// make + unmake: half-move 0..=4095 (the 12-bit undo field C03 states), concentrated on the edges
    Unmake,
    /// anything that goes through the engine: half-move 0..=150, full-move 1..=2000 (finding K1)
    Engine,
    /// engine with the clock far from the fifty-move limit (C08)
    EngineQuiet,
}

const HALF_BOARD: [u64; 18] = [0, 1, 2, 49, 50, 99, 100, 127, 128, 129, 255, 256, 4095, 4096, 262_143, 262_144, 1_000_000, 1_000_000_000];
const HALF_UNMAKE: [u64; 14] = [0, 1, 49, 50, 99, 100, 127, 128, 129, 130, 255, 256, 1000, 4095];
const FULL_BOARD: [u64; 12] = [1, 2, 3, 100, 2400, 2500, 2501, 65_535, 65_536, 1_000_000, 3_999_999_999, 4_000_000_000];
const FULL_ENGINE: [u64; 8] = [1, 1, 2, 10, 40, 100, 1000, 2000];

pub fn half_clock(domain: ClockDomain, sel: u8, raw: u32, keep: u64) -> u64 {
    match domain {
        ClockDomain::Keep => keep,
        ClockDomain::Board => {
            if sel < 160 {
                HALF_BOARD[pick(sel as u32, 8, 29).min(HALF_BOARD.len() - 1)]
            } else {
                raw as u64 % 1_000_000_001
            }
        }
        ClockDomain::Unmake => {
            if sel < 200 {
                HALF_UNMAKE[pick(sel as u32 % 200, 8, 18).min(HALF_UNMAKE.len() - 1)]
            } else {
                raw as u64 % 4096
            }
        }
        ClockDomain::Engine => {
            if sel < 128 {
                (raw % 20) as u64
            } else {
                raw as u64 % 151
            }
        }
        ClockDomain::EngineQuiet => (raw % 41) as u64,
    }
}

pub fn full_clock(domain: ClockDomain, sel: u8, raw: u32, keep: u64) -> u64 {
    match domain {
        ClockDomain::Keep => keep,
        ClockDomain::Board | ClockDomain::Unmake => {
            if sel < 128 {
                FULL_BOARD[pick(sel as u32, 7, FULL_BOARD.len())]
            } else {
                1 + raw as u64 % 4_000_000_000
            }
        }
        ClockDomain::Engine | ClockDomain::EngineQuiet => {
            if sel < 128 {
                FULL_ENGINE[pick(sel as u32, 7, FULL_ENGINE.len())]
            } else {
                1 + raw as u64 % 2000
            }
        }
    }
}

// ------------------------------------------------------------------------------------------------
// G1: playouts

#[derive(Debug, Clone)]
pub struct RawPlayout {
    pub seed: u16,
    pub half: (u8, u32),
    pub full: (u8, u32),
    pub flip: bool,
    pub choices: Vec<u16>,
}

pub fn raw_playout(max_plies: usize) -> impl Strategy<Value = RawPlayout> {
    (any::<u16>(), (any::<u8>(), any::<u32>()), (any::<u8>(), any::<u32>()), any::<bool>(), vec(any::<u16>(), 0..=max_plies))
        .prop_map(|(seed, half, full, flip, choices)| RawPlayout { seed, half, full, flip, choices })
}

#[derive(Debug, Clone, Serialize, Deserialize, PartialEq, Eq)]
pub struct Game {
    pub start: String,
    pub moves: Vec<String>,
}

#[derive(Debug, Clone)]
pub struct GameP {
    pub start: Pos,
    pub moves: Vec<Mv>,
    /// positions[i] = position before moves[i]; positions[len] = final position
    pub positions: Vec<Pos>,
}

impl GameP {
    pub fn to_game(&self) -> Game {
        Game { start: self.start.fen(), moves: self.moves.iter().map(Mv::uci).collect() }
    }
    pub fn last(&self) -> &Pos {
        self.positions.last().expect("positions")
    }
}

impl Game {
    /// Re-derive the model positions of a stored game (used when replaying a file).
    pub fn to_gamep(&self) -> Result<GameP, String> {
        let start = Pos::from_fen(&self.start).ok_or_else(|| format!("HARNESS: replay start FEN unreadable: {}", self.start))?;
        let mut positions = vec![start.clone()];
        let mut moves = Vec::new();
        let mut cur = start.clone();
        for u in &self.moves {
            let m = Mv::parse(u).ok_or_else(|| format!("HARNESS: replay move unreadable: {u}"))?;
            if !cur.is_legal(m) {
                return Err(format!("HARNESS: replay move {u} not legal in {}", cur.fen()));
            }
            cur = cur.apply(m);
            positions.push(cur.clone());
            moves.push(m);
        }
        Ok(GameP { start, moves, positions })
    }
}

/// "Interesting" = the rare move classes the properties care about.
pub fn is_interesting(p: &Pos, m: Mv) -> bool {
    let (us, kind) = p.board[m.from as usize].expect("piece");
    if p.is_capture(m) || m.promo.is_some() || p.is_castle(m) {
        return true;
    }
    let rights = if us == Color::White { p.castle[0] || p.castle[1] } else { p.castle[2] || p.castle[3] };
    if rights && (kind == Kind::King || kind == Kind::Rook) {
        return true;
    }
    if kind == Kind::Pawn && (rank_of(m.from) - rank_of(m.to)).abs() == 2 {
        return true;
    }
    p.apply(m).in_check(us.other())
}

pub fn choose_move(p: &Pos, legal: &[Mv], c: u16) -> Mv {
    let mode = c & 15;
    let idx = (c >> 4) as u32; // 12 bits
    match mode {
        12..=14 => {
            let v: Vec<Mv> = legal.iter().copied().filter(|&m| is_interesting(p, m)).collect();
            if v.is_empty() {
                legal[pick(idx, 12, legal.len())]
            } else {
                v[pick(idx, 12, v.len())]
            }
        }
        15 => {
            // drive towards mate / stalemate: minimise the opponent's mobility
            let mut best: Vec<Mv> = Vec::new();
            let mut best_n = usize::MAX;
            for &m in legal {
                let n = p.apply(m).legal_moves().len();
                if n < best_n {
                    best_n = n;
                    best.clear();
                }
                if n == best_n {
                    best.push(m);
                }
            }
            best[pick(idx, 12, best.len())]
        }
        _ => legal[pick(idx, 12, legal.len())],
    }
}

pub fn seed_position(raw: &RawPlayout, domain: ClockDomain) -> Pos {
    let s = seeds();
    let mut p = s[pick(raw.seed as u32, 16, s.len())].clone();
    if raw.flip {
        p = p.flip();
    }
    p.half = half_clock(domain, raw.half.0, raw.half.1, p.half);
    p.full = full_clock(domain, raw.full.0, raw.full.1, p.full);
    p
}

pub fn play(raw: &RawPlayout, domain: ClockDomain) -> GameP {
    play_from(seed_position(raw, domain), &raw.choices)
}

pub fn play_from(start: Pos, choices: &[u16]) -> GameP {
    let mut positions = vec![start.clone()];
    let mut moves = Vec::new();
    let mut cur = start.clone();
    for &c in choices {
        let legal = cur.legal_moves();
        if legal.is_empty() {
            break;
        }
        let m = choose_move(&cur, &legal, c);
        cur = cur.apply(m);
        positions.push(cur.clone());
        moves.push(m);
    }
    GameP { start, moves, positions }
}

// ------------------------------------------------------------------------------------------------
// G2: synthetic positions

#[derive(Debug, Clone)]
pub struct RawSynth {
    pub profile: u8,
    pub wk: u8,
    pub bk: u8,
    pub pieces: Vec<(u8, u8, u8)>,
    pub black_to_move: bool,
    pub rights: u8,
    pub ep_sel: u8,
    pub half: (u8, u32),
    pub full: (u8, u32),
    pub flip: bool,
}

pub const N_PROFILES: u8 = 9;

pub fn raw_synth() -> impl Strategy<Value = RawSynth> {
    raw_synth_profiles(0, N_PROFILES)
}

pub fn raw_synth_profiles(lo: u8, hi: u8) -> impl Strategy<Value = RawSynth> {
    (
        lo..hi,
        any::<u8>(),
        any::<u8>(),
        vec((any::<u8>(), any::<u8>(), any::<u8>()), 0..=28),
        any::<bool>(),
        any::<u8>(),
        any::<u8>(),
        ((any::<u8>(), any::<u32>()), (any::<u8>(), any::<u32>())),
        any::<bool>(),
    )
        .prop_map(|(profile, wk, bk, pieces, black_to_move, rights, ep_sel, (half, full), flip)| RawSynth { profile, wk, bk, pieces, black_to_move, rights, ep_sel, half, full, flip })
}

fn kind_for(profile: u8, k: u8, like: Kind) -> Kind {
    let table: &[Kind] = match profile {
        // 0 opening-like / 1 middlegame: initial-army proportions
        0 | 1 => &[Kind::Pawn, Kind::Pawn, Kind::Pawn, Kind::Pawn, Kind::Pawn, Kind::Pawn, Kind::Pawn, Kind::Pawn, Kind::Knight, Kind::Knight, Kind::Bishop, Kind::Bishop, Kind::Rook, Kind::Rook, Kind::Queen],
        // 2 endgame: heavy pieces and pawns
        2 => &[Kind::Queen, Kind::Rook, Kind::Rook, Kind::Pawn, Kind::Pawn, Kind::Knight, Kind::Bishop],
        // 3 many like pieces
        3 => return if k % 4 != 3 { like } else { [Kind::Pawn, Kind::Rook, Kind::Bishop, Kind::Knight, Kind::Queen][(k / 4) as usize % 5] },
        // 4 castling set-ups: minor pieces and a queen roaming around the home ranks
        4 => &[Kind::Knight, Kind::Bishop, Kind::Queen, Kind::Pawn, Kind::Rook, Kind::Bishop, Kind::Knight],
        // 5 pawn play: en passant and promotion
        5 => &[Kind::Pawn, Kind::Pawn, Kind::Pawn, Kind::Pawn, Kind::Rook, Kind::Bishop, Kind::Knight, Kind::Queen],
        // 6 mating nets: queens and rooks around bare-ish kings
        6 => &[Kind::Queen, Kind::Rook, Kind::Queen, Kind::Rook, Kind::Knight, Kind::Bishop, Kind::Pawn],
        // 7 en-passant exposure skeleton plus a few bystanders
        7 => &[Kind::Pawn, Kind::Knight, Kind::Bishop, Kind::Pawn, Kind::Rook, Kind::Queen, Kind::Pawn],
        // 8 promotion captures: pawns on the 7th / 2nd rank next to enemy pieces on the promotion rank
        _ => &[Kind::Rook, Kind::Queen, Kind::Knight, Kind::Bishop, Kind::Pawn, Kind::Rook],
    };
    table[pick(k as u32, 8, table.len())]
}

fn max_pieces(profile: u8) -> usize {
    match profile {
        0 => 28,
        1 => 16,
        2 => 5,
        3 => 7,
        4 => 10,
        5 => 12,
        6 => 5,
        7 => 6,
        _ => 5,
    }
}

fn adjacent(a: Sq, b: Sq) -> bool {
    (file_of(a) - file_of(b)).abs() <= 1 && (rank_of(a) - rank_of(b)).abs() <= 1
}

pub fn synth(raw: &RawSynth, domain: ClockDomain) -> Pos {
    let mut p = Pos::empty();
    let profile = raw.profile % N_PROFILES;
    // kings first; castling profile keeps them at home most of the time
    let (mut wk, mut bk) = (raw.wk % 64, raw.bk % 64);
    if profile == 4 {
        // (otherwise: anywhere, and three times out of four right next to an enemy home corner — a king that can
        // capture the unmoved rook, or that stands beside the castling path)
        if raw.wk % 8 != 7 {
            wk = E1;
        } else if raw.wk / 8 % 8 < 6 {
            wk = [sq(6, 6), sq(7, 6), sq(6, 7), sq(0, 6), sq(1, 6), sq(1, 7)][(raw.wk / 8 % 8) as usize];
        }
        if raw.bk % 8 != 7 {
            bk = E8;
        } else if raw.bk / 8 % 8 < 6 {
            bk = [sq(6, 1), sq(7, 1), sq(6, 0), sq(0, 1), sq(1, 1), sq(1, 0)][(raw.bk / 8 % 8) as usize];
        }
    }
    if profile == 5 {
        // keep the kings off the pawn ranks' centre so pawn play dominates
        wk = sq((raw.wk % 8) as i32, [0, 0, 1, 2][(raw.wk / 8 % 4) as usize]);
        bk = sq((raw.bk % 8) as i32, [7, 7, 6, 5][(raw.bk / 8 % 4) as usize]);
    }
    if profile == 6 {
        // the king to be mated likes edges and corners
        bk = [56, 63, 0, 7, 60, 59, 32, 39, 24, 31, 62, 57][(raw.bk % 12) as usize];
    }
    // profile 7: king, own pawn, enemy pawn that has just made a double step and an enemy rook / queen on ONE rank,
    // so that capturing en passant (which removes two pawns from the rank) exposes the king
    let mut ep_skeleton: Option<(Sq, Vec<(Sq, Color, Kind)>)> = None;
    if profile == 7 {
        // built for white to move on rank 5 (index 4); the black-to-move case is the vertical mirror
        let white = !raw.black_to_move;
        let rank = if white { 4 } else { 3 };
        let pf = 2 + (raw.wk % 4) as i32; // capturing pawn file 2..5, so that both sides of the pawn pair have room
        let ef = if raw.bk % 2 == 0 { pf + 1 } else { pf - 1 }; // enemy pawn next to it
        let (lo, hi) = (pf.min(ef), pf.max(ef));
        // king on one side, heavy piece on the other
        let king_left = raw.rights & 1 == 0;
        let left_room = lo; // files 0..lo-1
        let right_room = 7 - hi;
        let (kf, rf) = if king_left {
            ((raw.wk / 8) as i32 % left_room, hi + 1 + (raw.bk / 8) as i32 % right_room)
        } else {
            (hi + 1 + (raw.wk / 8) as i32 % right_room, (raw.bk / 8) as i32 % left_room)
        };
        let (us, them) = if white { (Color::White, Color::Black) } else { (Color::Black, Color::White) };
        let heavy = if raw.rights & 2 == 0 { Kind::Rook } else { Kind::Queen };
        let king_sq = sq(kf, rank);
        let ep_sq = sq(ef, if white { 5 } else { 2 });
        if white {
            wk = king_sq;
            if rank_of(bk) == rank {
                bk = sq(file_of(bk), 7);
            }
        } else {
            bk = king_sq;
            if rank_of(wk) == rank {
                wk = sq(file_of(wk), 0);
            }
        }
        ep_skeleton = Some((ep_sq, vec![(sq(pf, rank), us, Kind::Pawn), (sq(ef, rank), them, Kind::Pawn), (sq(rf, rank), them, heavy)]));
    }
    let mut k = 0;
    while adjacent(wk, bk) {
        bk = (bk + 1 + k) % 64;
        k += 1;
    }
    p.board[wk as usize] = Some((Color::White, Kind::King));
    p.board[bk as usize] = Some((Color::Black, Kind::King));
    if let Some((_, pieces)) = &ep_skeleton {
        for &(s, c, k) in pieces {
            if p.board[s as usize].is_none() {
                p.board[s as usize] = Some((c, k));
            }
        }
    }
    if profile == 8 {
        // pawns about to promote, with enemy pieces they can capture on the promotion rank
        for (j, &(k, c, sr)) in raw.pieces.iter().take(1 + (raw.wk % 3) as usize).enumerate() {
            let white = (c as usize + j) % 2 == 0;
            let f = (sr % 8) as i32;
            let (pawn_rank, promo_rank, us, them) = if white { (6, 7, Color::White, Color::Black) } else { (1, 0, Color::Black, Color::White) };
            let target_kind = [Kind::Rook, Kind::Queen, Kind::Knight, Kind::Bishop][(k % 4) as usize];
            let tf = if (k / 4) % 2 == 0 { f + 1 } else { f - 1 };
            if p.board[sq(f, pawn_rank) as usize].is_none() {
                p.board[sq(f, pawn_rank) as usize] = Some((us, Kind::Pawn));
            }
            if (0..8).contains(&tf) && p.board[sq(tf, promo_rank) as usize].is_none() {
                p.board[sq(tf, promo_rank) as usize] = Some((them, target_kind));
            }
            // sometimes the square straight ahead is blocked, sometimes free
            if (k / 8) % 3 == 0 && p.board[sq(f, promo_rank) as usize].is_none() {
                p.board[sq(f, promo_rank) as usize] = Some((them, Kind::Knight));
            }
        }
    }
    if profile == 4 {
        // rooks on their corners so that rights can exist
        for (s, c, bit) in [(H1, Color::White, 1u8), (A1, Color::White, 2), (H8, Color::Black, 4), (A8, Color::Black, 8)] {
            if raw.rights & bit != 0 && p.board[s as usize].is_none() {
                p.board[s as usize] = Some((c, Kind::Rook));
            }
        }
    }
    let like = [Kind::Knight, Kind::Rook, Kind::Queen, Kind::Bishop][(raw.ep_sel % 4) as usize];
    let like_color = if raw.rights & 16 != 0 { Color::White } else { Color::Black };
    let mut counts = [[0usize; 2]; 2]; // [color][0 = pawns, 1 = others]
    for &(kr, cr, sr) in raw.pieces.iter().take(max_pieces(profile)) {
        let kind = kind_for(profile, kr, like);
        let mut color = if cr & 1 == 0 { Color::White } else { Color::Black };
        if profile == 3 && kind == like {
            color = like_color;
        }
        if profile == 6 && cr % 4 != 3 {
            // the attacker (white) gets most of the material
            color = Color::White;
        }
        let ci = if color == Color::White { 0 } else { 1 };
        if kind == Kind::Pawn {
            if counts[ci][0] >= 8 {
                continue;
            }
        } else if counts[ci][1] >= 9 {
            continue;
        }
        if counts[ci][0] + counts[ci][1] >= 15 {
            continue;
        }
        // find a free square; pawns live on ranks 2..7 only
        let (lo, n) = if kind == Kind::Pawn { (8usize, 48usize) } else { (0, 64) };
        let mut s = lo + (sr as usize) % n;
        if profile == 5 && kind == Kind::Pawn {
            // push pawns towards the interesting ranks: 2, 4, 5, 7 (index 1, 3, 4, 6)
            let r = [1, 3, 4, 6, 1, 6, 3, 4][(sr / 8 % 8) as usize];
            s = (r * 8 + (sr % 8)) as usize;
        }
        if let Some((e, _)) = &ep_skeleton {
            // bystanders stay off the skeleton's rank and off the squares the double step passed over
            let r = rank_of(s as Sq);
            if r == 3 || r == 4 || file_of(s as Sq) == file_of(*e) {
                continue;
            }
        }
        let mut tries = 0;
        while p.board[s].is_some() && tries < n {
            s = lo + (s - lo + 1) % n;
            tries += 1;
        }
        if p.board[s].is_some() {
            continue;
        }
        p.board[s] = Some((color, kind));
        counts[ci][if kind == Kind::Pawn { 0 } else { 1 }] += 1;
    }
    p.turn = if raw.black_to_move { Color::Black } else { Color::White };
    // the side that is not to move must not be in check: remove the offending attackers
    let them = p.turn.other();
    let tk = p.king_sq(them).expect("king");
    loop {
        let att = p.attackers(tk, p.turn);
        if att.is_empty() {
            break;
        }
        for a in att {
            p.board[a as usize] = None;
        }
    }
    // castling rights only where king and rook are at home
    let wk_home = p.board[E1 as usize] == Some((Color::White, Kind::King));
    let bk_home = p.board[E8 as usize] == Some((Color::Black, Kind::King));
    let want = if profile == 4 { raw.rights } else if raw.rights & 0x60 == 0x60 { raw.rights } else { 0 };
    p.castle = [
        want & 1 != 0 && wk_home && p.board[H1 as usize] == Some((Color::White, Kind::Rook)),
        want & 2 != 0 && wk_home && p.board[A1 as usize] == Some((Color::White, Kind::Rook)),
        want & 4 != 0 && bk_home && p.board[H8 as usize] == Some((Color::Black, Kind::Rook)),
        want & 8 != 0 && bk_home && p.board[A8 as usize] == Some((Color::Black, Kind::Rook)),
    ];
    // en passant: only behind a pawn that can just have made a double step
    let mut cands: Vec<Sq> = Vec::new();
    for f in 0..8 {
        match p.turn {
            Color::White => {
                if p.board[sq(f, 4) as usize] == Some((Color::Black, Kind::Pawn)) && p.board[sq(f, 5) as usize].is_none() && p.board[sq(f, 6) as usize].is_none() {
                    cands.push(sq(f, 5));
                }
            }
            Color::Black => {
                if p.board[sq(f, 3) as usize] == Some((Color::White, Kind::Pawn)) && p.board[sq(f, 2) as usize].is_none() && p.board[sq(f, 1) as usize].is_none() {
                    cands.push(sq(f, 2));
                }
            }
        }
    }
    if let Some((e, _)) = &ep_skeleton {
        if cands.contains(e) && raw.ep_sel % 8 != 0 {
            p.ep = Some(*e);
        }
    } else if !cands.is_empty() && raw.ep_sel % 4 != 0 {
        // prefer candidates an enemy pawn can actually capture
        let capt: Vec<Sq> = cands
            .iter()
            .copied()
            .filter(|&e| {
                let r = if p.turn == Color::White { 4 } else { 3 };
                [-1, 1].iter().any(|df| {
                    let f = file_of(e) + df;
                    (0..8).contains(&f) && p.board[sq(f, r) as usize] == Some((p.turn, Kind::Pawn))
                })
            })
            .collect();
        let pool = if !capt.is_empty() && raw.ep_sel % 4 != 1 { &capt } else { &cands };
        p.ep = Some(pool[pick((raw.ep_sel / 4) as u32, 6, pool.len())]);
    }
    p.half = half_clock(domain, raw.half.0, raw.half.1, 0);
    p.full = full_clock(domain, raw.full.0, raw.full.1, 1);
    if p.ep.is_some() && matches!(domain, ClockDomain::Keep) {
        p.half = 0;
    }
    if raw.flip {
        p = p.flip();
    }
    assert!(p.is_sane(), "HARNESS: synthetic position not sane: {}", p.fen());
    p
}

// ------------------------------------------------------------------------------------------------
// positions from either source

#[derive(Debug, Clone)]
pub enum RawPos {
    Playout(RawPlayout),
    Synth(RawSynth),
}

pub fn raw_pos(max_plies: usize) -> impl Strategy<Value = RawPos> {
    prop_oneof![
        3 => raw_playout(max_plies).prop_map(RawPos::Playout),
        2 => raw_synth().prop_map(RawPos::Synth),
    ]
}

pub fn raw_pos_endgames() -> impl Strategy<Value = RawPos> {
    prop_oneof![
        1 => raw_playout(60).prop_map(RawPos::Playout),
        2 => raw_synth_profiles(2, 3).prop_map(RawPos::Synth),
        2 => raw_synth_profiles(6, 7).prop_map(RawPos::Synth),
    ]
}

pub fn position(raw: &RawPos, domain: ClockDomain) -> Pos {
    match raw {
        RawPos::Playout(r) => {
            let mut p = play(r, domain).last().clone();
            // a playout changes the clocks; re-base them so the final position carries the domain's edge values
            if !matches!(domain, ClockDomain::Keep) {
                p.half = half_clock(domain, r.half.0, r.half.1, p.half);
                p.full = full_clock(domain, r.full.0, r.full.1, p.full);
            }
            p
        }
        RawPos::Synth(r) => synth(r, domain),
    }
}

/// Feature classes of a position, for the histograms every run reports.
pub fn classify(p: &Pos) -> Vec<&'static str> {
    let mut v = Vec::new();
    let us = p.turn;
    let legal = p.legal_moves();
    let pseudo = p.pseudo_moves();
    if let Some(k) = p.king_sq(us) {
        let n = p.attackers(k, us.other()).len();
        if n == 1 {
            v.push("in_check");
        }
        if n >= 2 {
            v.push("double_check");
        }
        if legal.is_empty() {
            v.push(if n > 0 { "checkmate" } else { "stalemate" });
        }
    }
    if pseudo.len() != legal.len() {
        v.push("pseudo_ne_legal");
    }
    if p.ep.is_some() {
        v.push("ep_square_set");
        if legal.iter().any(|&m| p.is_ep(m)) {
            v.push("ep_capture_legal");
        } else if pseudo.iter().any(|&m| p.is_ep(m)) {
            v.push("ep_capture_illegal_by_pin_or_check");
        }
    }
    if p.castle.iter().any(|&c| c) {
        v.push("castling_rights");
        if legal.iter().any(|&m| p.is_castle(m)) {
            v.push("castling_available");
        } else {
            v.push("castling_unavailable");
        }
    }
    if legal.iter().any(|m| m.promo.is_some()) {
        v.push("promotion_available");
    }
    if p.half >= 128 {
        v.push("halfmove_ge_128");
    }
    if p.turn == Color::Black {
        v.push("black_to_move");
    }
    v
}
