//! Independent, deliberately naive chess model used as the oracle.
//! Shares no code with /repo: 8x8 mailbox, a1 = 0 (file = sq % 8, rank = sq / 8),
//! own FEN reader/writer, attack detection by walking rays, copy-make legality.

use std::fmt;

#[derive(Clone, Copy, PartialEq, Eq, Hash, Debug, PartialOrd, Ord)]
pub enum Color {
    White,
    Black,
}

impl Color {
    pub fn other(self) -> Color {
        match self {
            Color::White => Color::Black,
            Color::Black => Color::White,
        }
    }
}

#[derive(Clone, Copy, PartialEq, Eq, Hash, Debug, PartialOrd, Ord)]
pub enum Kind {
    Pawn,
    Knight,
    Bishop,
    Rook,
    Queen,
    King,
}

impl Kind {
    pub fn letter(self) -> char {
        match self {
            Kind::Pawn => 'p',
            Kind::Knight => 'n',
            Kind::Bishop => 'b',
            Kind::Rook => 'r',
            Kind::Queen => 'q',
            Kind::King => 'k',
        }
    }
    pub fn from_letter(c: char) -> Option<Kind> {
        Some(match c.to_ascii_lowercase() {
            'p' => Kind::Pawn,
            'n' => Kind::Knight,
            'b' => Kind::Bishop,
            'r' => Kind::Rook,
            'q' => Kind::Queen,
            'k' => Kind::King,
            _ => return None,
        })
    }
    pub const ALL: [Kind; 6] = [Kind::Pawn, Kind::Knight, Kind::Bishop, Kind::Rook, Kind::Queen, Kind::King];
}

pub type Sq = u8;

pub fn sq(file: i32, rank: i32) -> Sq {
    debug_assert!((0..8).contains(&file) && (0..8).contains(&rank));
    (rank * 8 + file) as Sq
}
pub fn file_of(s: Sq) -> i32 {
    (s % 8) as i32
}
pub fn rank_of(s: Sq) -> i32 {
    (s / 8) as i32
}
pub fn sq_name(s: Sq) -> String {
    format!("{}{}", (b'a' + (s % 8)) as char, (b'1' + (s / 8)) as char)
}
pub fn parse_sq(s: &str) -> Option<Sq> {
    let b = s.as_bytes();
    if b.len() != 2 || !(b'a'..=b'h').contains(&b[0]) || !(b'1'..=b'8').contains(&b[1]) {
        return None;
    }
    Some(sq((b[0] - b'a') as i32, (b[1] - b'1') as i32))
}

pub const A1: Sq = 0;
pub const C1: Sq = 2;
pub const D1: Sq = 3;
pub const E1: Sq = 4;
pub const F1: Sq = 5;
pub const G1: Sq = 6;
pub const H1: Sq = 7;
pub const A8: Sq = 56;
pub const C8: Sq = 58;
pub const D8: Sq = 59;
pub const E8: Sq = 60;
pub const F8: Sq = 61;
pub const G8: Sq = 62;
pub const H8: Sq = 63;

/// A move at the level of UCI text: from, to, promotion piece.
#[derive(Clone, Copy, PartialEq, Eq, Hash, Debug, PartialOrd, Ord)]
pub struct Mv {
    pub from: Sq,
    pub to: Sq,
    pub promo: Option<Kind>,
}

impl Mv {
    pub fn uci(&self) -> String {
        let mut s = format!("{}{}", sq_name(self.from), sq_name(self.to));
        if let Some(p) = self.promo {
            s.push(p.letter());
        }
        s
    }
    pub fn parse(s: &str) -> Option<Mv> {
        if s.len() < 4 || s.len() > 5 || !s.is_ascii() {
            return None;
        }
        let from = parse_sq(&s[0..2])?;
        let to = parse_sq(&s[2..4])?;
        let promo = if s.len() == 5 { Some(Kind::from_letter(s.as_bytes()[4] as char)?) } else { None };
        Some(Mv { from, to, promo })
    }
}

impl fmt::Display for Mv {
    fn fmt(&self, f: &mut fmt::Formatter<'_>) -> fmt::Result {
        write!(f, "{}", self.uci())
    }
}

/// Castling right indices: 0 = white king side, 1 = white queen side, 2 = black king side, 3 = black queen side.
#[derive(Clone, PartialEq, Eq, Hash, Debug)]
pub struct Pos {
    pub board: [Option<(Color, Kind)>; 64],
    pub turn: Color,
    pub castle: [bool; 4],
    pub ep: Option<Sq>,
    pub half: u64,
    pub full: u64,
}

#[derive(Clone, PartialEq, Eq, Hash, Debug, PartialOrd, Ord)]
pub struct Key {
    pub placement: String,
    pub turn: Color,
    pub castle: [bool; 4],
    pub ep: Option<Sq>,
}

const KNIGHT_D: [(i32, i32); 8] = [(1, 2), (2, 1), (2, -1), (1, -2), (-1, -2), (-2, -1), (-2, 1), (-1, 2)];
const KING_D: [(i32, i32); 8] = [(1, 0), (1, 1), (0, 1), (-1, 1), (-1, 0), (-1, -1), (0, -1), (1, -1)];
const ROOK_D: [(i32, i32); 4] = [(1, 0), (0, 1), (-1, 0), (0, -1)];
const BISHOP_D: [(i32, i32); 4] = [(1, 1), (-1, 1), (-1, -1), (1, -1)];

pub const START_FEN: &str = "rnbqkbnr/pppppppp/8/8/8/8/PPPPPPPP/RNBQKBNR w KQkq - 0 1";

impl Pos {
    pub fn empty() -> Pos {
        Pos { board: [None; 64], turn: Color::White, castle: [false; 4], ep: None, half: 0, full: 1 }
    }

    pub fn start() -> Pos {
        Pos::from_fen(START_FEN).expect("start fen")
    }

    /// Strict reader for the FEN dialect this harness itself writes (4 or 6 fields).
    pub fn from_fen(fen: &str) -> Option<Pos> {
        let fields: Vec<&str> = fen.split(' ').collect();
        if fields.len() != 4 && fields.len() != 6 {
            return None;
        }
        let mut p = Pos::empty();
        let ranks: Vec<&str> = fields[0].split('/').collect();
        if ranks.len() != 8 {
            return None;
        }
        for (i, r) in ranks.iter().enumerate() {
            let rank = 7 - i as i32;
            let mut file = 0;
            for c in r.chars() {
                if let Some(d) = c.to_digit(10) {
                    if !(1..=8).contains(&d) {
                        return None;
                    }
                    file += d as i32;
                } else {
                    let k = Kind::from_letter(c)?;
                    if file > 7 {
                        return None;
                    }
                    let col = if c.is_ascii_uppercase() { Color::White } else { Color::Black };
                    p.board[sq(file, rank) as usize] = Some((col, k));
                    file += 1;
                }
            }
            if file != 8 {
                return None;
            }
        }
        p.turn = match fields[1] {
            "w" => Color::White,
            "b" => Color::Black,
            _ => return None,
        };
        if fields[2] != "-" {
            for c in fields[2].chars() {
                match c {
                    'K' => p.castle[0] = true,
                    'Q' => p.castle[1] = true,
                    'k' => p.castle[2] = true,
                    'q' => p.castle[3] = true,
                    _ => return None,
                }
            }
        }
        p.ep = if fields[3] == "-" { None } else { Some(parse_sq(fields[3])?) };
        if fields.len() == 6 {
            p.half = fields[4].parse().ok()?;
            p.full = fields[5].parse().ok()?;
        }
        Some(p)
    }

    pub fn placement(&self) -> String {
        let mut s = String::new();
        for rank in (0..8).rev() {
            let mut empty = 0;
            for file in 0..8 {
                match self.board[sq(file, rank) as usize] {
                    None => empty += 1,
                    Some((c, k)) => {
                        if empty > 0 {
                            s.push_str(&empty.to_string());
                            empty = 0;
                        }
                        let l = k.letter();
                        s.push(if c == Color::White { l.to_ascii_uppercase() } else { l });
                    }
                }
            }
            if empty > 0 {
                s.push_str(&empty.to_string());
            }
            if rank > 0 {
                s.push('/');
            }
        }
        s
    }

    pub fn castle_str(&self) -> String {
        let mut s = String::new();
        for (i, c) in ['K', 'Q', 'k', 'q'].iter().enumerate() {
            if self.castle[i] {
                s.push(*c);
            }
        }
        if s.is_empty() {
            s.push('-');
        }
        s
    }

    pub fn fen4(&self) -> String {
        format!(
            "{} {} {} {}",
            self.placement(),
            if self.turn == Color::White { "w" } else { "b" },
            self.castle_str(),
            self.ep.map_or("-".to_string(), sq_name)
        )
    }

    pub fn fen(&self) -> String {
        format!("{} {} {}", self.fen4(), self.half, self.full)
    }

    pub fn key(&self) -> Key {
        Key { placement: self.placement(), turn: self.turn, castle: self.castle, ep: self.ep }
    }

    pub fn king_sq(&self, c: Color) -> Option<Sq> {
        (0..64u8).find(|&s| self.board[s as usize] == Some((c, Kind::King)))
    }

    pub fn count(&self, c: Color, k: Kind) -> usize {
        self.board.iter().filter(|&&x| x == Some((c, k))).count()
    }

    /// Is `target` attacked by any piece of colour `by`? (Pure geometry, ignores pins.)
    pub fn attacked(&self, target: Sq, by: Color) -> bool {
        !self.attackers(target, by).is_empty()
    }

    /// All squares holding a piece of colour `by` that attacks `target`.
    pub fn attackers(&self, target: Sq, by: Color) -> Vec<Sq> {
        let mut out = Vec::new();
        let (tf, tr) = (file_of(target), rank_of(target));
        // pawns: a white pawn on (f, r) attacks (f±1, r+1)
        let dr = if by == Color::White { -1 } else { 1 };
        for df in [-1, 1] {
            let (f, r) = (tf + df, tr + dr);
            if (0..8).contains(&f) && (0..8).contains(&r) && self.board[sq(f, r) as usize] == Some((by, Kind::Pawn)) {
                out.push(sq(f, r));
            }
        }
        for (df, dr) in KNIGHT_D {
            let (f, r) = (tf + df, tr + dr);
            if (0..8).contains(&f) && (0..8).contains(&r) && self.board[sq(f, r) as usize] == Some((by, Kind::Knight)) {
                out.push(sq(f, r));
            }
        }
        for (df, dr) in KING_D {
            let (f, r) = (tf + df, tr + dr);
            if (0..8).contains(&f) && (0..8).contains(&r) && self.board[sq(f, r) as usize] == Some((by, Kind::King)) {
                out.push(sq(f, r));
            }
        }
        for (dirs, kind) in [(&ROOK_D, Kind::Rook), (&BISHOP_D, Kind::Bishop)] {
            for &(df, dr) in dirs.iter() {
                let (mut f, mut r) = (tf + df, tr + dr);
                while (0..8).contains(&f) && (0..8).contains(&r) {
                    if let Some((c, k)) = self.board[sq(f, r) as usize] {
                        if c == by && (k == kind || k == Kind::Queen) {
                            out.push(sq(f, r));
                        }
                        break;
                    }
                    f += df;
                    r += dr;
                }
            }
        }
        out
    }

    pub fn in_check(&self, c: Color) -> bool {
        match self.king_sq(c) {
            Some(k) => self.attacked(k, c.other()),
            None => false,
        }
    }

    /// Pseudo-legal moves of the side to move by the FIDE movement rules
    /// (castling already fully checked, since its conditions concern the position before the move).
    pub fn pseudo_moves(&self) -> Vec<Mv> {
        let us = self.turn;
        let them = us.other();
        let mut out = Vec::new();
        for from in 0..64u8 {
            let Some((c, k)) = self.board[from as usize] else { continue };
            if c != us {
                continue;
            }
            let (f0, r0) = (file_of(from), rank_of(from));
            match k {
                Kind::Pawn => {
                    let dir = if us == Color::White { 1 } else { -1 };
                    let start_rank = if us == Color::White { 1 } else { 6 };
                    let promo_rank = if us == Color::White { 7 } else { 0 };
                    let mut push = |to: Sq, out: &mut Vec<Mv>| {
                        if rank_of(to) == promo_rank {
                            for p in [Kind::Queen, Kind::Rook, Kind::Bishop, Kind::Knight] {
                                out.push(Mv { from, to, promo: Some(p) });
                            }
                        } else {
                            out.push(Mv { from, to, promo: None });
                        }
                    };
                    let r1 = r0 + dir;
                    if (0..8).contains(&r1) {
                        if self.board[sq(f0, r1) as usize].is_none() {
                            push(sq(f0, r1), &mut out);
                            let r2 = r0 + 2 * dir;
                            if r0 == start_rank && self.board[sq(f0, r2) as usize].is_none() {
                                push(sq(f0, r2), &mut out);
                            }
                        }
                        for df in [-1, 1] {
                            let f1 = f0 + df;
                            if !(0..8).contains(&f1) {
                                continue;
                            }
                            let to = sq(f1, r1);
                            match self.board[to as usize] {
                                Some((c2, _)) if c2 == them => push(to, &mut out),
                                None if self.ep == Some(to) && self.ep_capturable_geometry(to) => push(to, &mut out),
                                _ => {}
                            }
                        }
                    }
                }
                Kind::Knight | Kind::King => {
                    let d = if k == Kind::Knight { &KNIGHT_D } else { &KING_D };
                    for &(df, dr) in d.iter() {
                        let (f, r) = (f0 + df, r0 + dr);
                        if (0..8).contains(&f) && (0..8).contains(&r) {
                            let to = sq(f, r);
                            match self.board[to as usize] {
                                Some((c2, _)) if c2 == us => {}
                                _ => out.push(Mv { from, to, promo: None }),
                            }
                        }
                    }
                }
                Kind::Bishop | Kind::Rook | Kind::Queen => {
                    let mut dirs: Vec<(i32, i32)> = Vec::new();
                    if k != Kind::Bishop {
                        dirs.extend_from_slice(&ROOK_D);
                    }
                    if k != Kind::Rook {
                        dirs.extend_from_slice(&BISHOP_D);
                    }
                    for (df, dr) in dirs {
                        let (mut f, mut r) = (f0 + df, r0 + dr);
                        while (0..8).contains(&f) && (0..8).contains(&r) {
                            let to = sq(f, r);
                            match self.board[to as usize] {
                                None => out.push(Mv { from, to, promo: None }),
                                Some((c2, _)) => {
                                    if c2 == them {
                                        out.push(Mv { from, to, promo: None });
                                    }
                                    break;
                                }
                            }
                            f += df;
                            r += dr;
                        }
                    }
                }
            }
        }
        // castling
        let (home, ks, qs) = if us == Color::White { (E1, 0, 1) } else { (E8, 2, 3) };
        let rank = rank_of(home);
        if self.board[home as usize] == Some((us, Kind::King)) && !self.attacked(home, them) {
            if self.castle[ks]
                && self.board[sq(7, rank) as usize] == Some((us, Kind::Rook))
                && self.board[sq(5, rank) as usize].is_none()
                && self.board[sq(6, rank) as usize].is_none()
                && !self.attacked(sq(5, rank), them)
                && !self.attacked(sq(6, rank), them)
            {
                out.push(Mv { from: home, to: sq(6, rank), promo: None });
            }
            if self.castle[qs]
                && self.board[sq(0, rank) as usize] == Some((us, Kind::Rook))
                && self.board[sq(1, rank) as usize].is_none()
                && self.board[sq(2, rank) as usize].is_none()
                && self.board[sq(3, rank) as usize].is_none()
                && !self.attacked(sq(3, rank), them)
                && !self.attacked(sq(2, rank), them)
            {
                out.push(Mv { from: home, to: sq(2, rank), promo: None });
            }
        }
        out
    }

    /// The e.p. target must be on the 6th (for white to move) / 3rd rank with the enemy pawn right behind it.
    fn ep_capturable_geometry(&self, ep: Sq) -> bool {
        let (f, r) = (file_of(ep), rank_of(ep));
        match self.turn {
            Color::White => r == 5 && self.board[sq(f, 4) as usize] == Some((Color::Black, Kind::Pawn)),
            Color::Black => r == 2 && self.board[sq(f, 3) as usize] == Some((Color::White, Kind::Pawn)),
        }
    }

    pub fn is_castle(&self, m: Mv) -> bool {
        matches!(self.board[m.from as usize], Some((_, Kind::King))) && (file_of(m.from) - file_of(m.to)).abs() == 2
    }

    pub fn is_ep(&self, m: Mv) -> bool {
        matches!(self.board[m.from as usize], Some((_, Kind::Pawn)))
            && file_of(m.from) != file_of(m.to)
            && self.board[m.to as usize].is_none()
    }

    pub fn is_capture(&self, m: Mv) -> bool {
        self.board[m.to as usize].is_some() || self.is_ep(m)
    }

    /// Successor position by the rules of chess. `m` must be pseudo-legal.
    pub fn apply(&self, m: Mv) -> Pos {
        let mut n = self.clone();
        let (us, kind) = self.board[m.from as usize].expect("piece on from square");
        let them = us.other();
        let capture = self.is_capture(m);
        let ep_capture = self.is_ep(m);
        let castle = self.is_castle(m);

        n.board[m.from as usize] = None;
        if ep_capture {
            let victim = sq(file_of(m.to), rank_of(m.from));
            n.board[victim as usize] = None;
        }
        n.board[m.to as usize] = Some((us, m.promo.unwrap_or(kind)));
        if castle {
            let rank = rank_of(m.from);
            if file_of(m.to) == 6 {
                n.board[sq(7, rank) as usize] = None;
                n.board[sq(5, rank) as usize] = Some((us, Kind::Rook));
            } else {
                n.board[sq(0, rank) as usize] = None;
                n.board[sq(3, rank) as usize] = Some((us, Kind::Rook));
            }
        }
        // castling rights: lost when the king moves, when a rook leaves its home square,
        // and when a rook is captured on its home square
        let (our_k, our_q, our_home) = if us == Color::White { (0, 1, 0) } else { (2, 3, 7) };
        let (their_k, their_q, their_home) = if them == Color::White { (0, 1, 0) } else { (2, 3, 7) };
        if kind == Kind::King {
            n.castle[our_k] = false;
            n.castle[our_q] = false;
        }
        if kind == Kind::Rook {
            if m.from == sq(7, our_home) {
                n.castle[our_k] = false;
            }
            if m.from == sq(0, our_home) {
                n.castle[our_q] = false;
            }
        }
        if capture && !ep_capture {
            if m.to == sq(7, their_home) {
                n.castle[their_k] = false;
            }
            if m.to == sq(0, their_home) {
                n.castle[their_q] = false;
            }
        }
        // en passant target: set after every double step (FEN convention)
        n.ep = if kind == Kind::Pawn && (rank_of(m.from) - rank_of(m.to)).abs() == 2 {
            Some(sq(file_of(m.from), (rank_of(m.from) + rank_of(m.to)) / 2))
        } else {
            None
        };
        n.half = if kind == Kind::Pawn || capture { 0 } else { self.half + 1 };
        if us == Color::Black {
            n.full = self.full + 1;
        }
        n.turn = them;
        n
    }

    pub fn legal_moves(&self) -> Vec<Mv> {
        let us = self.turn;
        self.pseudo_moves().into_iter().filter(|&m| !self.apply(m).in_check(us)).collect()
    }

    pub fn is_legal(&self, m: Mv) -> bool {
        self.pseudo_moves().contains(&m) && !self.apply(m).in_check(self.turn)
    }

    pub fn perft(&self, depth: u32) -> u64 {
        if depth == 0 {
            return 1;
        }
        let moves = self.legal_moves();
        if depth == 1 {
            return moves.len() as u64;
        }
        moves.iter().map(|&m| self.apply(m).perft(depth - 1)).sum()
    }

    /// Standard algebraic notation of a legal move.
    pub fn san(&self, m: Mv) -> String {
        let (us, kind) = self.board[m.from as usize].expect("piece");
        let next = self.apply(m);
        let gives_check = next.in_check(us.other());
        let no_moves = next.legal_moves().is_empty();
        let suffix = if gives_check && no_moves {
            "#"
        } else if gives_check {
            "+"
        } else {
            ""
        };
        if self.is_castle(m) {
            return format!("{}{}", if file_of(m.to) == 6 { "O-O" } else { "O-O-O" }, suffix);
        }
        let capture = self.is_capture(m);
        let mut s = String::new();
        if kind == Kind::Pawn {
            if capture {
                s.push((b'a' + file_of(m.from) as u8) as char);
            }
        } else {
            s.push(kind.letter().to_ascii_uppercase());
            let rivals: Vec<Mv> = self
                .legal_moves()
                .into_iter()
                .filter(|o| o.to == m.to && o.from != m.from && self.board[o.from as usize] == Some((us, kind)))
                .collect();
            if !rivals.is_empty() {
                let same_file = rivals.iter().any(|o| file_of(o.from) == file_of(m.from));
                let same_rank = rivals.iter().any(|o| rank_of(o.from) == rank_of(m.from));
                if !same_file {
                    s.push((b'a' + file_of(m.from) as u8) as char);
                } else if !same_rank {
                    s.push((b'1' + rank_of(m.from) as u8) as char);
                } else {
                    s.push_str(&sq_name(m.from));
                }
            }
        }
        if capture {
            s.push('x');
        }
        s.push_str(&sq_name(m.to));
        if let Some(p) = m.promo {
            s.push('=');
            s.push(p.letter().to_ascii_uppercase());
        }
        s.push_str(suffix);
        s
    }

    /// Colour mirror: flip vertically, swap colours, side to move and castling rights.
    pub fn flip(&self) -> Pos {
        let mut n = Pos::empty();
        for s in 0..64u8 {
            if let Some((c, k)) = self.board[s as usize] {
                n.board[sq(file_of(s), 7 - rank_of(s)) as usize] = Some((c.other(), k));
            }
        }
        n.turn = self.turn.other();
        n.castle = [self.castle[2], self.castle[3], self.castle[0], self.castle[1]];
        n.ep = self.ep.map(|e| sq(file_of(e), 7 - rank_of(e)));
        n.half = self.half;
        n.full = self.full;
        n
    }

    /// Structural sanity of a position this harness is about to hand to the code under test:
    /// one king each, no pawns on the back ranks, side not to move not in check, rights and e.p. consistent.
    pub fn is_sane(&self) -> bool {
        if self.count(Color::White, Kind::King) != 1 || self.count(Color::Black, Kind::King) != 1 {
            return false;
        }
        for f in 0..8 {
            for r in [0, 7] {
                if matches!(self.board[sq(f, r) as usize], Some((_, Kind::Pawn))) {
                    return false;
                }
            }
        }
        if self.in_check(self.turn.other()) {
            return false;
        }
        let wk = self.board[E1 as usize] == Some((Color::White, Kind::King));
        let bk = self.board[E8 as usize] == Some((Color::Black, Kind::King));
        if self.castle[0] && !(wk && self.board[H1 as usize] == Some((Color::White, Kind::Rook))) {
            return false;
        }
        if self.castle[1] && !(wk && self.board[A1 as usize] == Some((Color::White, Kind::Rook))) {
            return false;
        }
        if self.castle[2] && !(bk && self.board[H8 as usize] == Some((Color::Black, Kind::Rook))) {
            return false;
        }
        if self.castle[3] && !(bk && self.board[A8 as usize] == Some((Color::Black, Kind::Rook))) {
            return false;
        }
        if let Some(e) = self.ep {
            let (f, r) = (file_of(e), rank_of(e));
            let ok = match self.turn {
                // black just played a double step: e.p. square on rank 6, pawn on rank 5, origin (rank 7) empty
                Color::White => {
                    r == 5
                        && self.board[sq(f, 4) as usize] == Some((Color::Black, Kind::Pawn))
                        && self.board[sq(f, 5) as usize].is_none()
                        && self.board[sq(f, 6) as usize].is_none()
                }
                Color::Black => {
                    r == 2
                        && self.board[sq(f, 3) as usize] == Some((Color::White, Kind::Pawn))
                        && self.board[sq(f, 2) as usize].is_none()
                        && self.board[sq(f, 1) as usize].is_none()
                }
            };
            if !ok {
                return false;
            }
        }
        true
    }
}

/// Published perft counts used to validate the model itself before it judges anything.
pub const PERFT_SUITE: &[(&str, &[u64])] = &[
    (START_FEN, &[20, 400, 8902, 197281]),
    ("r3k2r/p1ppqpb1/bn2pnp1/3PN3/1p2P3/2N2Q1p/PPPBBPPP/R3K2R w KQkq - 0 1", &[48, 2039, 97862]),
    ("8/2p5/3p4/KP5r/1R3p1k/8/4P1P1/8 w - - 0 1", &[14, 191, 2812, 43238]),
    ("r3k2r/Pppp1ppp/1b3nbN/nP6/BBP1P3/q4N2/Pp1P2PP/R2Q1RK1 w kq - 0 1", &[6, 264, 9467]),
    ("r2q1rk1/pP1p2pp/Q4n2/bbp1p3/Np6/1B3NBn/pPPP1PPP/R3K2R b KQ - 0 1", &[6, 264, 9467]),
    ("rnbq1k1r/pp1Pbppp/2p5/8/2B5/8/PPP1NnPP/RNBQK2R w KQ - 1 8", &[44, 1486, 62379]),
    ("r4rk1/1pp1qppp/p1np1n2/2b1p1B1/2B1P1b1/P1NP1N2/1PP1QPPP/R4RK1 w - - 0 10", &[46, 2079, 89890]),
];

pub fn self_test() -> Result<(), String> {
    for (fen, counts) in PERFT_SUITE {
        let p = Pos::from_fen(fen).ok_or_else(|| format!("model cannot read {fen}"))?;
        if p.fen() != *fen {
            return Err(format!("model FEN round trip {fen} -> {}", p.fen()));
        }
        for (i, &c) in counts.iter().enumerate() {
            let got = p.perft(i as u32 + 1);
            if got != c {
                return Err(format!("model perft({}) of {fen} = {got}, published {c}", i + 1));
            }
        }
    }
    // a few SAN facts from the PGN standard
    let p = Pos::from_fen("3q4/2P5/8/8/4Q2Q/k7/8/K6Q w - - 0 1").unwrap();
    for (u, s) in [("e4e1", "Qee1"), ("h4e1", "Qh4e1"), ("h1e1", "Q1e1"), ("c7c8q", "c8=Q"), ("c7d8n", "cxd8=N")] {
        let got = p.san(Mv::parse(u).unwrap());
        if got != s {
            return Err(format!("model SAN {u} = {got}, expected {s}"));
        }
    }
    Ok(())
}
