//! Reference search: plain fail-soft alpha-beta WITHOUT transposition table, killers, PV or
//! iterative deepening, valued exactly as the property states it. Two forms:
//!  * on the engine's `Bitboard` (fast; shares move generation and static evaluation with the code under
//!    test — both are judged by their own properties C01-C05 / C11),
//!  * a pruning-free minimax on the independent mailbox model (slow; used to validate the fast one).

use inkayaku_board::constants::{BLACK, WHITE};
use inkayaku_board::{Bitboard, Move};
use inkayaku_engine_core::verif as hooks;

use crate::eng;
use crate::refmodel::{Color, Mv, Pos};

pub const WIN: i32 = 1 << 24;
pub const INF: i32 = WIN + 1;

fn sign(b: &Bitboard) -> i32 {
    if b.turn == WHITE {
        1
    } else {
        -1
    }
}

/// stand-pat: the engine's static evaluation (white-centric) from the mover's point of view
pub fn stand_pat(b: &Bitboard) -> i32 {
    sign(b) * hooks::static_eval(b, true)
}

/// a position without legal moves: mate (lost for the mover, nearer = worse) or stalemate
pub fn terminal(b: &Bitboard) -> i32 {
    if b.is_current_in_check() {
        -(WIN - b.fullmove_clock as i32)
    } else {
        0
    }
}

pub fn legal(b: &mut Bitboard) -> Vec<Move> {
    let mut out = Vec::new();
    for mv in b.generate_pseudo_legal_moves() {
        b.make(mv);
        if b.is_valid() {
            out.push(mv);
        }
        b.unmake(mv);
    }
    out
}

pub struct Stats {
    pub nodes: u64,
}

/// exhaustive capture / promotion resolution with stand-pat
pub fn quiesce(b: &mut Bitboard, mut alpha: i32, beta: i32, st: &mut Stats) -> i32 {
    st.nodes += 1;
    let stand = stand_pat(b);
    let mut best = stand;
    if best >= beta {
        return best;
    }
    alpha = alpha.max(best);
    let mut moves: Vec<Move> = legal(b).into_iter().filter(|m| m.is_attack() || m.is_promotion()).collect();
    moves.sort_by_key(|m| -(m.get_piece_attacked() as i32 * 16 - m.get_piece_moved() as i32));
    for mv in moves {
        b.make(mv);
        let v = -quiesce(b, -beta, -alpha, st);
        b.unmake(mv);
        if v > best {
            best = v;
            if v >= beta {
                return best;
            }
            alpha = alpha.max(v);
        }
    }
    best
}

/// value of the position for the side to move, searching `depth` plies and resolving the horizon
pub fn negamax(b: &mut Bitboard, depth: u32, mut alpha: i32, beta: i32, st: &mut Stats) -> i32 {
    st.nodes += 1;
    let mut moves = legal(b);
    if moves.is_empty() {
        return terminal(b);
    }
    if depth == 0 {
        return quiesce(b, alpha, beta, st);
    }
    moves.sort_by_key(|m| -(m.get_piece_attacked() as i32 * 16 - m.get_piece_moved() as i32));
    let mut best = -INF;
    for mv in moves {
        b.make(mv);
        let v = -negamax(b, depth - 1, -beta, -alpha, st);
        b.unmake(mv);
        if v > best {
            best = v;
            if v >= beta {
                return best;
            }
            alpha = alpha.max(v);
        }
    }
    best
}

pub fn root_value(b: &mut Bitboard, depth: u32) -> (i32, u64) {
    let mut st = Stats { nodes: 0 };
    let v = negamax(b, depth, -INF, INF, &mut st);
    (v, st.nodes)
}

/// exact values of all root moves (full window each)
pub fn root_move_values(b: &mut Bitboard, depth: u32) -> Vec<(String, i32)> {
    let mut out = Vec::new();
    let mut st = Stats { nodes: 0 };
    for mv in legal(b) {
        b.make(mv);
        let v = -negamax(b, depth.saturating_sub(1), -INF, INF, &mut st);
        b.unmake(mv);
        out.push((mv.to_uci_string(), v));
    }
    out
}

/// UCI score text of a mover-relative root value (independent derivation of the mate distance)
pub fn score_text(value: i32, root: &Bitboard) -> String {
    if value.abs() > WIN / 2 {
        let full_at_mate = WIN - value.abs();
        let root_full = root.fullmove_clock as i32;
        if value > 0 {
            // the root side gives mate with its N-th move
            let n = full_at_mate - root_full + if root.turn == WHITE { 1 } else { 0 };
            format!("mate {n}")
        } else {
            let n = full_at_mate - root_full;
            format!("mate -{n}")
        }
    } else {
        format!("cp {value}")
    }
}

// ------------------------------------------------------------------------------------------------
// the same search with the draw-by-repetition rule of the property: a line is worth the draw score (up to the
// contempt offset) exactly when the position it reaches has then occurred at least three times, counting the
// game history and the line itself, with no capture or pawn move in between

/// position identity for repetition purposes (placement, side, rights, e.p. field), independent of the engine's hash
pub fn rep_key(b: &Bitboard) -> u64 {
    let mut h: u64 = 0xcbf29ce484222325;
    let mut mix = |x: u64| {
        h ^= x;
        h = h.wrapping_mul(0x100000001b3);
        h ^= h >> 29;
    };
    for side in eng::pieces_of(b) {
        for bb in side {
            mix(bb);
        }
    }
    mix(b.turn as u64);
    mix(b.white.king_side_castle as u64 | (b.white.queen_side_castle as u64) << 1 | (b.black.king_side_castle as u64) << 2 | (b.black.queen_side_castle as u64) << 3);
    mix(b.en_passant_square_shift as u64);
    h
}

pub struct RepCtx {
    /// keys of all positions of the game so far and of the current line, oldest first (the current node is last)
    pub keys: Vec<u64>,
    pub contempt: i32,
    /// +1: a repetition reached at an even ply is worth +contempt to the side to move there (the engine's
    /// convention), -1: the opposite convention (the property leaves the sign open)
    pub sign: i32,
    pub nodes: u64,
    pub repetition_leaves: u64,
    /// work bound: once `nodes` exceeds it the search unwinds at once and `aborted` is set (the values are then void)
    pub limit: u64,
    pub aborted: bool,
}

fn quiesce_capped(b: &mut Bitboard, mut alpha: i32, beta: i32, cx: &mut RepCtx) -> i32 {
    cx.nodes += 1;
    if cx.nodes > cx.limit {
        cx.aborted = true;
        return 0;
    }
    let stand = stand_pat(b);
    let mut best = stand;
    if best >= beta {
        return best;
    }
    alpha = alpha.max(best);
    let mut moves: Vec<Move> = legal(b).into_iter().filter(|m| m.is_attack() || m.is_promotion()).collect();
    moves.sort_by_key(|m| -(m.get_piece_attacked() as i32 * 16 - m.get_piece_moved() as i32));
    for mv in moves {
        b.make(mv);
        let v = -quiesce_capped(b, -beta, -alpha, cx);
        b.unmake(mv);
        if cx.aborted {
            return 0;
        }
        if v > best {
            best = v;
            if v >= beta {
                return best;
            }
            alpha = alpha.max(v);
        }
    }
    best
}

fn occurrences(keys: &[u64], half: u32) -> usize {
    let n = keys.len();
    let cur = keys[n - 1];
    let lo = (n - 1).saturating_sub(half as usize);
    keys[lo..].iter().filter(|&&k| k == cur).count()
}

pub fn negamax_rep(b: &mut Bitboard, depth: u32, ply: u32, mut alpha: i32, beta: i32, cx: &mut RepCtx) -> i32 {
    cx.nodes += 1;
    if cx.nodes > cx.limit {
        cx.aborted = true;
        return 0;
    }
    cx.keys.push(rep_key(b));
    let v = (|| {
        if ply > 0 && occurrences(&cx.keys, b.halfmove_clock) >= 3 {
            cx.repetition_leaves += 1;
            return cx.sign * cx.contempt * if ply % 2 == 0 { 1 } else { -1 };
        }
        let mut moves = legal(b);
        if moves.is_empty() {
            return terminal(b);
        }
        if depth == 0 {
            cx.nodes -= 1;
            return quiesce_capped(b, alpha, beta, cx);
        }
        moves.sort_by_key(|m| -(m.get_piece_attacked() as i32 * 16 - m.get_piece_moved() as i32));
        let mut best = -INF;
        for mv in moves {
            b.make(mv);
            let v = -negamax_rep(b, depth - 1, ply + 1, -beta, -alpha, cx);
            b.unmake(mv);
            if cx.aborted {
                return 0;
            }
            if v > best {
                best = v;
                if v >= beta {
                    return best;
                }
                alpha = alpha.max(v);
            }
        }
        best
    })();
    cx.keys.pop();
    v
}

/// keys of the game `start + moves` up to but excluding the final position (which the search pushes itself)
pub fn game_keys(start: &Pos, moves: &[Mv]) -> Vec<u64> {
    let mut keys = Vec::new();
    let mut p = start.clone();
    for m in moves {
        keys.push(rep_key(&eng::board_from_pos(&p)));
        p = p.apply(*m);
    }
    keys
}

/// exact root value and the exact value of every root move, with the repetition rule
/// (None when the work bound `limit` was exceeded)
pub fn root_values_rep(root: &mut Bitboard, history_keys: &[u64], depth: u32, contempt: i32, sign: i32, limit: u64) -> Option<(i32, Vec<(String, i32)>, u64, u64)> {
    let mut cx = RepCtx { keys: history_keys.to_vec(), contempt, sign, nodes: 0, repetition_leaves: 0, limit, aborted: false };
    cx.keys.push(rep_key(root));
    let mut out = Vec::new();
    let mut best = -INF;
    for mv in legal(root) {
        root.make(mv);
        let v = -negamax_rep(root, depth.saturating_sub(1), 1, -INF, INF, &mut cx);
        root.unmake(mv);
        if cx.aborted {
            return None;
        }
        best = best.max(v);
        out.push((mv.to_uci_string(), v));
    }
    Some((best, out, cx.nodes, cx.repetition_leaves))
}

// ------------------------------------------------------------------------------------------------
// pruning-free minimax on the independent model (validation of the fast reference)

fn stand_pat_model(p: &Pos) -> i32 {
    let b = eng::board_from_pos(p);
    (if p.turn == Color::White { 1 } else { -1 }) * hooks::static_eval(&b, true)
}

pub fn quiesce_plain(p: &Pos) -> i32 {
    let mut best = stand_pat_model(p);
    for m in p.legal_moves() {
        if p.is_capture(m) || m.promo.is_some() {
            best = best.max(-quiesce_plain(&p.apply(m)));
        }
    }
    best
}

pub fn minimax_plain(p: &Pos, depth: u32) -> i32 {
    let moves: Vec<Mv> = p.legal_moves();
    if moves.is_empty() {
        return if p.in_check(p.turn) { -(WIN - p.full as i32) } else { 0 };
    }
    if depth == 0 {
        return quiesce_plain(p);
    }
    moves.iter().map(|&m| -minimax_plain(&p.apply(m), depth - 1)).max().unwrap_or(0)
}

// ------------------------------------------------------------------------------------------------
// forced mates

/// can the side to move force checkmate within `n` of its own moves?
pub fn mates_in(b: &mut Bitboard, n: u32) -> bool {
    if n == 0 {
        return false;
    }
    for mv in legal(b) {
        b.make(mv);
        let ok = mated_within(b, n - 1);
        b.unmake(mv);
        if ok {
            return true;
        }
    }
    false
}

/// the side to move is checkmated now, or every reply allows a mate within `n` further attacker moves
pub fn mated_within(b: &mut Bitboard, n: u32) -> bool {
    let replies = legal(b);
    if replies.is_empty() {
        return b.is_current_in_check();
    }
    if n == 0 {
        return false;
    }
    for r in replies {
        b.make(r);
        let ok = mates_in(b, n);
        b.unmake(r);
        if !ok {
            return false;
        }
    }
    true
}

/// minimal N <= max such that the side to move mates in N
pub fn mate_distance(b: &mut Bitboard, max: u32) -> Option<u32> {
    (1..=max).find(|&n| mates_in(b, n))
}

pub fn color_of(b: &Bitboard) -> &'static str {
    if b.turn == BLACK {
        "black"
    } else {
        "white"
    }
}
