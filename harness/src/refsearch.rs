//! Reference search: plain fail-soft alpha-beta WITHOUT transposition table, killers, PV or
//! iterative deepening, valued exactly as the property states it. Two forms:
//!  * on the engine's `Bitboard` (fast; shares move generation and static evaluation with the code under
//!    test — both are judged by their own properties C01-C05 / C11),
//!  * a pruning-free minimax on the independent mailbox model (slow; used to validate the fast one).

use inkayaku_board::constants::{BLACK, WHITE};
use inkayaku_board::{Bitboard, Move};
use inkayaku_engine_core::verif as hooks;

use crate::eng;
use crate::refmodel::{Color, Mv, Pos};

pub const WIN: i32 = 1 << 24;
pub const INF: i32 = WIN + 1;

fn sign(b: &Bitboard) -> i32 {
    if b.turn == WHITE {
        1
    } else {
        -1
    }
}

/// stand-pat: the engine's static evaluation (white-centric) from the mover's point of view
pub fn stand_pat(b: &Bitboard) -> i32 {
    sign(b) * hooks::static_eval(b, true)
}

/// a position without legal moves: mate (lost for the mover, nearer = worse) or stalemate
pub fn terminal(b: &Bitboard) -> i32 {
    if b.is_current_in_check() {
        -(WIN - b.fullmove_clock as i32)
    } else {
        0
    }
}

pub fn legal(b: &mut Bitboard) -> Vec<Move> {
    let mut out = Vec::new();
    for mv in b.generate_pseudo_legal_moves() {
        b.make(mv);
        if b.is_valid() {
            out.push(mv);
        }
        b.unmake(mv);
    }
    out
}

pub struct Stats {
    pub nodes: u64,
}

/// exhaustive capture / promotion resolution with stand-pat
pub fn quiesce(b: &mut Bitboard, mut alpha: i32, beta: i32, st: &mut Stats) -> i32 {
    st.nodes += 1;
    let stand = stand_pat(b);
    let mut best = stand;
    if best >= beta {
        return best;
    }
    alpha = alpha.max(best);
    let mut moves: Vec<Move> = legal(b).into_iter().filter(|m| m.is_attack() || m.is_promotion()).collect();
    moves.sort_by_key(|m| -(m.get_piece_attacked() as i32 * 16 - m.get_piece_moved() as i32));
    for mv in moves {
        b.make(mv);
        let v = -quiesce(b, -beta, -alpha, st);
        b.unmake(mv);
        if v > best {
            best = v;
            if v >= beta {
                return best;
            }
            alpha = alpha.max(v);
        }
    }
    best
}

/// value of the position for the side to move, searching `depth` plies and resolving the horizon
pub fn negamax(b: &mut Bitboard, depth: u32, mut alpha: i32, beta: i32, st: &mut Stats) -> i32 {
    st.nodes += 1;
    let mut moves = legal(b);
    if moves.is_empty() {
        return terminal(b);
    }
    if depth == 0 {
        return quiesce(b, alpha, beta, st);
    }
    moves.sort_by_key(|m| -(m.get_piece_attacked() as i32 * 16 - m.get_piece_moved() as i32));
    let mut best = -INF;
    for mv in moves {
        b.make(mv);
        let v = -negamax(b, depth - 1, -beta, -alpha, st);
        b.unmake(mv);
        if v > best {
            best = v;
            if v >= beta {
                return best;
            }
            alpha = alpha.max(v);
        }
    }
    best
}

pub fn root_value(b: &mut Bitboard, depth: u32) -> (i32, u64) {
    let mut st = Stats { nodes: 0 };
    let v = negamax(b, depth, -INF, INF, &mut st);
    (v, st.nodes)
}

/// exact values of all root moves (full window each)
pub fn root_move_values(b: &mut Bitboard, depth: u32) -> Vec<(String, i32)> {
    let mut out = Vec::new();
    let mut st = Stats { nodes: 0 };
    for mv in legal(b) {
        b.make(mv);
        let v = -negamax(b, depth.saturating_sub(1), -INF, INF, &mut st);
        b.unmake(mv);
        out.push((mv.to_uci_string(), v));
    }
    out
}

/// UCI score text of a mover-relative root value (independent derivation of the mate distance)
pub fn score_text(value: i32, root: &Bitboard) -> String {
    if value.abs() > WIN / 2 {
        let full_at_mate = WIN - value.abs();
        let root_full = root.fullmove_clock as i32;
        if value > 0 {
            // the root side gives mate with its N-th move
            let n = full_at_mate - root_full + if root.turn == WHITE { 1 } else { 0 };
            format!("mate {n}")
        } else {
            let n = full_at_mate - root_full;
            format!("mate -{n}")
        }
    } else {
        format!("cp {value}")
    }
}

// ------------------------------------------------------------------------------------------------
// pruning-free minimax on the independent model (validation of the fast reference)

fn stand_pat_model(p: &Pos) -> i32 {
    let b = eng::board_from_pos(p);
    (if p.turn == Color::White { 1 } else { -1 }) * hooks::static_eval(&b, true)
}

pub fn quiesce_plain(p: &Pos) -> i32 {
    let mut best = stand_pat_model(p);
    for m in p.legal_moves() {
        if p.is_capture(m) || m.promo.is_some() {
            best = best.max(-quiesce_plain(&p.apply(m)));
        }
    }
    best
}

pub fn minimax_plain(p: &Pos, depth: u32) -> i32 {
    let moves: Vec<Mv> = p.legal_moves();
    if moves.is_empty() {
        return if p.in_check(p.turn) { -(WIN - p.full as i32) } else { 0 };
    }
    if depth == 0 {
        return quiesce_plain(p);
    }
    moves.iter().map(|&m| -minimax_plain(&p.apply(m), depth - 1)).max().unwrap_or(0)
}

// ------------------------------------------------------------------------------------------------
// forced mates

/// can the side to move force checkmate within `n` of its own moves?
pub fn mates_in(b: &mut Bitboard, n: u32) -> bool {
    if n == 0 {
        return false;
    }
    for mv in legal(b) {
        b.make(mv);
        let ok = mated_within(b, n - 1);
        b.unmake(mv);
        if ok {
            return true;
        }
    }
    false
}

/// the side to move is checkmated now, or every reply allows a mate within `n` further attacker moves
pub fn mated_within(b: &mut Bitboard, n: u32) -> bool {
    let replies = legal(b);
    if replies.is_empty() {
        return b.is_current_in_check();
    }
    if n == 0 {
        return false;
    }
    for r in replies {
        b.make(r);
        let ok = mates_in(b, n);
        b.unmake(r);
        if !ok {
            return false;
        }
    }
    true
}

/// minimal N <= max such that the side to move mates in N
pub fn mate_distance(b: &mut Bitboard, max: u32) -> Option<u32> {
    (1..=max).find(|&n| mates_in(b, n))
}

pub fn color_of(b: &Bitboard) -> &'static str {
    if b.turn == BLACK {
        "black"
    } else {
        "white"
    }
}
