//! Driving the engine: in-process sessions on `Engine<CommandUciTx>` (typed messages),
//! in-process sessions on `Engine<ConsoleUciTx>` (the exact text lines) and the real binary over pipes.

use std::io::{BufRead, BufReader, Write};
use std::panic::{catch_unwind, AssertUnwindSafe};
use std::process::{Child, ChildStdin, Command, Stdio};
use std::str::FromStr;
use std::sync::mpsc::{channel, Receiver, RecvTimeoutError};
use std::sync::{Arc, Mutex};
use std::time::{Duration, Instant};

use inkayaku_core::fen::Fen;
use inkayaku_engine_core::Engine;
use inkayaku_uci::command::CommandUciTx;
use inkayaku_uci::console::ConsoleUciTx;
use inkayaku_uci::{Go, Info, Score, UciCommand, UciEngine, UciMove, UciTxCommand};
use serde::{Deserialize, Serialize};

use crate::run::HARNESS_PREFIX;

pub const WATCHDOG: Duration = Duration::from_secs(180);

/// Signature of known finding K1 in its depth form (see DESIGN §5): the search deepened until root ply + depth
/// reached the 5000-entry repetition history and the search thread died.
pub const K1_DEPTH_FORM: &str = "fullmove>2500 depth form: search deepened to the end of the 5000-entry repetition history without polling stop (search thread dies)";

/// did the engine die because of K1's depth form? (`root_ply` = 2*(fullmove-1)+side of the searched root)
pub fn is_k1_depth_form(root_ply: u64, last_depth: Option<u64>) -> bool {
    last_depth.map_or(false, |d| root_ply + d >= 4_900)
}

pub fn max_depth_in_lines(lines: &[String]) -> Option<u64> {
    lines.iter().filter_map(|l| { let t: Vec<&str> = l.split(' ').collect(); t.iter().position(|x| *x == "depth").and_then(|i| t.get(i + 1)).and_then(|d| d.parse::<u64>().ok()) }).max()
}

/// `go` parameters in a serialisable form (what a GUI would write on the line)
#[derive(Debug, Clone, Default, Serialize, Deserialize, PartialEq, Eq, Hash)]
pub struct GoSpec {
    pub depth: Option<u64>,
    pub movetime: Option<u64>,
    pub wtime: Option<u64>,
    pub btime: Option<u64>,
    pub winc: Option<u64>,
    pub binc: Option<u64>,
    pub movestogo: Option<u64>,
    pub nodes: Option<u64>,
    pub mate: Option<u64>,
    pub infinite: bool,
    pub searchmoves: Vec<String>,
    /// for searches without a finite limit: send `stop` this many milliseconds after `go`
    pub stop_after_ms: Option<u64>,
    /// `go ponder ...`; the GUI sends `ponderhit` this many milliseconds after `go` (before any stop)
    #[serde(default)]
    pub ponder: bool,
    #[serde(default)]
    pub ponderhit_after_ms: Option<u64>,
    /// text sessions only: this many `isready` lines are sent while the search runs (each must be answered by an
    /// intact `readyok` line, and no other line may be damaged by it)
    #[serde(default)]
    pub pings: u8,
    /// in-process sessions: `ucinewgame` is sent right behind the `stop` (both are waiting when the search polls)
    #[serde(default)]
    pub newgame_right_after_stop: bool,
    /// text sessions only: a command line the GUI sends in the middle of a stop-terminated search
    /// (`ucinewgame`, `debug on|off`): whatever the engine does with it, the output of the running search stays coherent
    #[serde(default)]
    pub midsearch_line: Option<String>,
}

impl GoSpec {
    pub fn depth(d: u64) -> GoSpec {
        GoSpec { depth: Some(d), ..GoSpec::default() }
    }

    pub fn is_unbounded(&self) -> bool {
        self.depth.is_none() && self.movetime.is_none() && self.wtime.is_none() && self.btime.is_none()
    }

    pub fn to_go(&self) -> Go {
        Go {
            search_moves: self.searchmoves.iter().filter_map(|m| UciMove::from_str(m).ok()).collect(),
            ponder: self.ponder,
            white_time: self.wtime.map(Duration::from_millis),
            black_time: self.btime.map(Duration::from_millis),
            white_increment: self.winc.map(Duration::from_millis),
            black_increment: self.binc.map(Duration::from_millis),
            moves_to_go: self.movestogo,
            depth: self.depth,
            nodes: self.nodes,
            mate: self.mate,
            move_time: self.movetime.map(Duration::from_millis),
            infinite: self.infinite,
        }
    }

    pub fn to_line(&self) -> String {
        let mut s = String::from(if self.ponder { "go ponder" } else { "go" });
        let mut add = |k: &str, v: Option<u64>| {
            if let Some(v) = v {
                s.push_str(&format!(" {k} {v}"));
            }
        };
        add("depth", self.depth);
        add("movetime", self.movetime);
        add("wtime", self.wtime);
        add("btime", self.btime);
        add("winc", self.winc);
        add("binc", self.binc);
        add("movestogo", self.movestogo);
        add("nodes", self.nodes);
        add("mate", self.mate);
        if self.infinite {
            s.push_str(" infinite");
        }
        if !self.searchmoves.is_empty() {
            s.push_str(" searchmoves ");
            s.push_str(&self.searchmoves.join(" "));
        }
        s
    }
}

#[derive(Debug, Clone)]
pub struct SearchOutput {
    pub infos: Vec<Info>,
    pub best: Option<UciMove>,
    pub ponder: Option<UciMove>,
    pub others: usize,
}

impl SearchOutput {
    pub fn best_uci(&self) -> Option<String> {
        self.best.as_ref().map(|m| m.to_string())
    }
    /// the last info that carries a score (the final report of the deepest completed iteration)
    pub fn last_scored(&self) -> Option<&Info> {
        self.infos.iter().rev().find(|i| i.score.is_some())
    }
}

pub enum Wait {
    Done(SearchOutput),
    /// the search thread terminated without answering (crash instead of answer); second field = deepest depth reported before
    ThreadDied(String, Option<u64>),
    /// nothing for WATCHDOG although the thread is alive: inconclusive, never a violation
    Timeout,
}

pub struct Session {
    engine: Option<Engine<CommandUciTx>>,
    rx: Receiver<UciTxCommand>,
}

impl Session {
    pub fn new() -> Session {
        let (tx, rx) = channel();
        Session { engine: Some(Engine::new(Arc::new(CommandUciTx::new(tx)), false)), rx }
    }

    fn engine(&mut self) -> &mut Engine<CommandUciTx> {
        self.engine.as_mut().expect("engine")
    }

    pub fn new_game(&mut self) {
        self.engine().accept(UciCommand::UciNewGame);
    }

    pub fn position(&mut self, fen: &str, moves: &[String]) -> Result<(), String> {
        let f = Fen::from_str(fen).map_err(|e| format!("{HARNESS_PREFIX} engine rejects session FEN {fen}: {e:?}"))?;
        let mv: Vec<UciMove> = moves.iter().map(|m| UciMove::from_str(m).map_err(|e| format!("{HARNESS_PREFIX} bad session move {m}: {e:?}"))).collect::<Result<_, _>>()?;
        self.engine().accept(UciCommand::PositionFrom { fen: f, moves: mv });
        Ok(())
    }

    pub fn send(&mut self, c: UciCommand) {
        self.engine().accept(c);
    }

    pub fn go(&mut self, spec: &GoSpec) {
        self.engine().accept(UciCommand::Go { go: spec.to_go() });
    }

    pub fn stop(&mut self) {
        self.engine().accept(UciCommand::Stop);
    }

    pub fn thread_finished(&self) -> bool {
        self.engine.as_ref().map_or(true, |e| e.verif_search_thread_finished())
    }

    pub fn dump_fen(&self) -> Option<String> {
        if self.thread_finished() {
            return None;
        }
        self.engine.as_ref().and_then(|e| e.verif_dump_fen())
    }

    /// collect everything up to and including the next BestMove
    pub fn wait_bestmove(&mut self) -> Wait {
        let t0 = Instant::now();
        let mut infos = Vec::new();
        let mut others = 0;
        loop {
            match self.rx.recv_timeout(Duration::from_millis(50)) {
                Ok(UciTxCommand::BestMove { best_move, ponder_move }) => return Wait::Done(SearchOutput { infos, best: best_move, ponder: ponder_move, others }),
                Ok(UciTxCommand::Info { info }) => infos.push(info),
                Ok(_) => others += 1,
                Err(RecvTimeoutError::Timeout) => {
                    if self.thread_finished() {
                        // drain what may still be queued
                        while let Ok(m) = self.rx.try_recv() {
                            if let UciTxCommand::BestMove { best_move, ponder_move } = m {
                                return Wait::Done(SearchOutput { infos, best: best_move, ponder: ponder_move, others });
                            }
                        }
                        let deepest = infos.iter().filter_map(|i| i.depth).max().map(u64::from);
                        return Wait::ThreadDied("the search thread terminated without sending bestmove".into(), deepest);
                    }
                    if t0.elapsed() > WATCHDOG {
                        return Wait::Timeout;
                    }
                }
                Err(RecvTimeoutError::Disconnected) => return Wait::ThreadDied("output channel closed".into(), infos.iter().filter_map(|i| i.depth).max().map(u64::from)),
            }
        }
    }

    /// as `wait_bestmove`, watching the engine's own progress reports: `stop_sent` = when `stop` went out,
    /// `movetime` = an explicit move time that is in force
    pub fn wait_bestmove_live(&mut self, stop_sent: Option<Instant>, movetime: Option<u64>) -> Wait {
        let t0 = Instant::now();
        let mut infos: Vec<Info> = Vec::new();
        let mut others = 0;
        let (mut polls_after_stop, mut reports_beyond_limit) = (0u32, 0u32);
        loop {
            match self.rx.recv_timeout(Duration::from_millis(50)) {
                Ok(UciTxCommand::BestMove { best_move, ponder_move }) => return Wait::Done(SearchOutput { infos, best: best_move, ponder: ponder_move, others }),
                Ok(UciTxCommand::Info { info }) => {
                    // (only the reports of the poll site count: they carry no depth. Iteration reports prove nothing — on a
                    // dead-drawn root the engine finishes hundreds of iterations per second without ever polling, see K1)
                    let poll_report = info.depth.is_none() && info.score.is_none() && info.principal_variation.is_none();
                    if poll_report && stop_sent.map_or(false, |t| t.elapsed() > Duration::from_millis(300)) {
                        polls_after_stop += 1;
                    }
                    if let (true, Some(limit), Some(t)) = (poll_report, movetime, info.time) {
                        if t.as_millis() as u64 >= limit + 3_000 {
                            reports_beyond_limit += 1;
                        }
                    }
                    if infos.len() < 100_000 {
                        infos.push(info);
                    }
                    let lost = if polls_after_stop >= 60 {
                        Some(format!("the search goes on after `stop`: {polls_after_stop} further progress reports (one per 100,000 nodes, each of which looks at the command queue) and no bestmove"))
                    } else if reports_beyond_limit >= 3 {
                        Some(format!("the search goes on beyond its limit: the engine itself reports {:?} ms for `go movetime {}`", infos.last().and_then(|i| i.time).map(|t| t.as_millis()), movetime.unwrap_or(0)))
                    } else {
                        None
                    };
                    if let Some(why) = lost {
                        // end it for good (a fresh stop), then report
                        self.stop();
                        let t1 = Instant::now();
                        while t1.elapsed() < Duration::from_secs(20) {
                            if let Ok(UciTxCommand::BestMove { .. }) = self.rx.recv_timeout(Duration::from_millis(50)) {
                                break;
                            }
                        }
                        return Wait::ThreadDied(why, None);
                    }
                }
                Ok(_) => others += 1,
                Err(RecvTimeoutError::Timeout) => {
                    if self.thread_finished() {
                        while let Ok(m) = self.rx.try_recv() {
                            if let UciTxCommand::BestMove { best_move, ponder_move } = m {
                                return Wait::Done(SearchOutput { infos, best: best_move, ponder: ponder_move, others });
                            }
                        }
                        let deepest = infos.iter().filter_map(|i| i.depth).max().map(u64::from);
                        return Wait::ThreadDied("the search thread terminated without sending bestmove".into(), deepest);
                    }
                    if t0.elapsed() > WATCHDOG {
                        return Wait::Timeout;
                    }
                }
                Err(RecvTimeoutError::Disconnected) => return Wait::ThreadDied("output channel closed".into(), infos.iter().filter_map(|i| i.depth).max().map(u64::from)),
            }
        }
    }

    /// run one search to its bestmove, sending `stop` when the spec asks for it
    pub fn search(&mut self, spec: &GoSpec) -> Wait {
        self.go(spec);
        if let Some(ms) = spec.ponderhit_after_ms {
            std::thread::sleep(Duration::from_millis(ms));
            self.send(UciCommand::PonderHit);
        }
        let mut stop_sent = None;
        if let Some(ms) = spec.stop_after_ms {
            std::thread::sleep(Duration::from_millis(ms));
            self.stop();
            stop_sent = Some(Instant::now());
            if spec.newgame_right_after_stop {
                self.new_game();
            }
        } else if spec.is_unbounded() {
            // never leave an unbounded search running
            std::thread::sleep(Duration::from_millis(30));
            self.stop();
            stop_sent = Some(Instant::now());
        }
        let movetime = if !spec.ponder || spec.ponderhit_after_ms.is_some() { spec.movetime } else { None };
        self.wait_bestmove_live(stop_sent, movetime)
    }

    /// messages that arrive although no search is running (there must be none)
    pub fn stray_bestmoves(&mut self, wait: Duration) -> usize {
        let t0 = Instant::now();
        let mut n = 0;
        while t0.elapsed() < wait {
            match self.rx.recv_timeout(Duration::from_millis(5)) {
                Ok(UciTxCommand::BestMove { .. }) => n += 1,
                Ok(_) => {}
                Err(_) => {}
            }
        }
        n
    }

    /// `quit` (possibly in the middle of a search), join, and count the bestmove messages that were sent
    pub fn quit_collect(mut self, n_best: &mut usize) -> Result<(), String> {
        let r = self.quit_inner();
        while let Ok(m) = self.rx.try_recv() {
            if matches!(m, UciTxCommand::BestMove { .. }) {
                *n_best += 1;
            }
        }
        r
    }

    /// `quit` and join; Err if the search thread had panicked
    pub fn quit(mut self) -> Result<(), String> {
        self.quit_inner()
    }

    fn quit_inner(&mut self) -> Result<(), String> {
        if let Some(mut e) = self.engine.take() {
            if e.verif_search_thread_finished() {
                return Err("search thread had already terminated before quit".into());
            }
            let r = catch_unwind(AssertUnwindSafe(|| e.accept(UciCommand::Quit)));
            if r.is_err() {
                return Err("search thread panicked (join failed at quit)".into());
            }
        }
        Ok(())
    }
}

impl Drop for Session {
    fn drop(&mut self) {
        // an Engine that is dropped without `quit` leaves its search thread spinning on a closed channel
        let _ = self.quit_inner();
    }
}

pub fn score_text(s: &Score) -> String {
    match s {
        Score::Centipawn { score } => format!("cp {score}"),
        Score::CentipawnBounded { score, bound } => format!("cp {score} {bound}"),
        Score::Mate { mate_in } => format!("mate {mate_in}"),
    }
}

// ------------------------------------------------------------------------------------------------
// text sessions: same engine, console transmitter, lines captured in memory

type LineSink = Arc<Mutex<Vec<String>>>;

pub struct TextSession {
    engine: Option<Engine<ConsoleUciTx<Box<dyn Fn(&str) + Send + Sync>, Box<dyn Fn(&str) + Send + Sync>>>>,
    lines: LineSink,
    cursor: usize,
}

impl TextSession {
    pub fn new() -> TextSession {
        let lines: LineSink = Arc::new(Mutex::new(Vec::new()));
        let l2 = lines.clone();
        let out: Box<dyn Fn(&str) + Send + Sync> = Box::new(move |s: &str| l2.lock().unwrap().push(s.to_string()));
        let err: Box<dyn Fn(&str) + Send + Sync> = Box::new(|_s: &str| {});
        let tx = Arc::new(ConsoleUciTx::new(out, err, false));
        TextSession { engine: Some(Engine::new(tx, false)), lines, cursor: 0 }
    }

    /// feed one GUI line through the crate's own parser, as the binary's read loop does
    pub fn line(&mut self, text: &str) -> Result<(), String> {
        match inkayaku_uci::parser::CommandParser::new(text).parse() {
            Ok(cmd) => {
                if matches!(cmd, UciCommand::SetOption { .. } | UciCommand::SetOptionValue { .. }) {
                    return Err(format!("{HARNESS_PREFIX} sessions never send setoption (todo!() in Engine::accept)"));
                }
                if let Some(e) = self.engine.as_mut() {
                    e.accept(cmd);
                }
                Ok(())
            }
            Err(e) => Err(format!("{HARNESS_PREFIX} session line {text:?} does not parse: {e:?}")),
        }
    }

    pub fn thread_finished(&self) -> bool {
        self.engine.as_ref().map_or(true, |e| e.verif_search_thread_finished())
    }

    /// lines written since the last call, waiting until a line starting with `until` has appeared
    pub fn read_until(&mut self, until: &str) -> Result<Vec<String>, Wait> {
        let t0 = Instant::now();
        loop {
            {
                let l = self.lines.lock().unwrap();
                if let Some(pos) = l[self.cursor..].iter().position(|x| x.starts_with(until)) {
                    let out = l[self.cursor..=self.cursor + pos].to_vec();
                    self.cursor += pos + 1;
                    return Ok(out);
                }
            }
            if self.thread_finished() {
                let l = self.lines.lock().unwrap();
                return Err(Wait::ThreadDied("search thread terminated".into(), max_depth_in_lines(&l[self.cursor..])));
            }
            if t0.elapsed() > WATCHDOG {
                return Err(Wait::Timeout);
            }
            std::thread::sleep(Duration::from_millis(2));
        }
    }

    pub fn drain(&mut self) -> Vec<String> {
        let l = self.lines.lock().unwrap();
        let out = l[self.cursor..].to_vec();
        self.cursor = l.len();
        out
    }

    pub fn quit(mut self) -> Result<(), String> {
        self.quit_inner()
    }

    fn quit_inner(&mut self) -> Result<(), String> {
        if let Some(mut e) = self.engine.take() {
            if e.verif_search_thread_finished() {
                return Err("search thread had already terminated before quit".into());
            }
            if catch_unwind(AssertUnwindSafe(|| e.accept(UciCommand::Quit))).is_err() {
                return Err("search thread panicked (join failed at quit)".into());
            }
        }
        Ok(())
    }
}

impl Drop for TextSession {
    fn drop(&mut self) {
        let _ = self.quit_inner();
    }
}

// ------------------------------------------------------------------------------------------------
// the real binary

pub fn engine_binary() -> std::path::PathBuf {
    crate::run::verif_root().join("harness/target-app/release/inkayaku_engine_app")
}

pub struct BinSession {
    child: Child,
    stdin: Option<ChildStdin>,
    rx: Receiver<String>,
}

impl BinSession {
    pub fn new() -> Result<BinSession, String> {
        let path = engine_binary();
        let mut child = Command::new(&path).stdin(Stdio::piped()).stdout(Stdio::piped()).stderr(Stdio::null()).spawn().map_err(|e| format!("{HARNESS_PREFIX} cannot start {}: {e}", path.display()))?;
        let stdin = child.stdin.take();
        let stdout = child.stdout.take().ok_or_else(|| format!("{HARNESS_PREFIX} no stdout"))?;
        let (tx, rx) = channel();
        std::thread::spawn(move || {
            let r = BufReader::new(stdout);
            for line in r.lines() {
                match line {
                    Ok(l) => {
                        if tx.send(l).is_err() {
                            break;
                        }
                    }
                    Err(_) => break,
                }
            }
        });
        Ok(BinSession { child, stdin, rx })
    }

    pub fn line(&mut self, text: &str) -> Result<(), String> {
        let s = self.stdin.as_mut().ok_or_else(|| format!("{HARNESS_PREFIX} stdin closed"))?;
        s.write_all(text.as_bytes()).and_then(|_| s.write_all(b"\n")).and_then(|_| s.flush()).map_err(|e| format!("engine process closed its stdin ({e}) when sent {text:?}"))
    }

    pub fn exited(&mut self) -> bool {
        matches!(self.child.try_wait(), Ok(Some(_)))
    }

    pub fn read_until(&mut self, until: &str) -> Result<Vec<String>, Wait> {
        let t0 = Instant::now();
        let mut out = Vec::new();
        loop {
            match self.rx.recv_timeout(Duration::from_millis(50)) {
                Ok(l) => {
                    // (a damaged line that still contains the awaited word ends the wait as well: it is judged by the caller)
                    let hit = l.starts_with(until) || (!l.starts_with("info string") && l.contains(until));
                    out.push(l);
                    if hit {
                        return Ok(out);
                    }
                }
                Err(RecvTimeoutError::Timeout) => {
                    if self.exited() {
                        return Err(Wait::ThreadDied(format!("engine process exited; last lines: {:?}", out.iter().rev().take(3).collect::<Vec<_>>()), max_depth_in_lines(&out)));
                    }
                    if t0.elapsed() > WATCHDOG {
                        return Err(Wait::Timeout);
                    }
                }
                Err(RecvTimeoutError::Disconnected) => return Err(Wait::ThreadDied(format!("engine process closed stdout; last lines: {:?}", out.iter().rev().take(3).collect::<Vec<_>>()), max_depth_in_lines(&out))),
            }
        }
    }

    pub fn drain(&mut self, wait: Duration) -> Vec<String> {
        let mut out = Vec::new();
        let t0 = Instant::now();
        while t0.elapsed() < wait {
            if let Ok(l) = self.rx.recv_timeout(Duration::from_millis(5)) {
                out.push(l);
            }
        }
        out
    }

    /// send quit and wait for the process to end; kills it after a grace period
    pub fn quit(mut self) -> Result<Vec<String>, String> {
        let _ = self.line("quit");
        let t0 = Instant::now();
        let mut rest = Vec::new();
        loop {
            while let Ok(l) = self.rx.try_recv() {
                rest.push(l);
            }
            match self.child.try_wait() {
                Ok(Some(st)) => {
                    while let Ok(l) = self.rx.recv_timeout(Duration::from_millis(20)) {
                        rest.push(l);
                    }
                    return if st.success() { Ok(rest) } else { Err(format!("engine process ended with {st}")) };
                }
                Ok(None) => {
                    if t0.elapsed() > Duration::from_secs(20) {
                        let _ = self.child.kill();
                        let _ = self.child.wait();
                        return Err("engine process did not exit within 20 s after quit".into());
                    }
                    std::thread::sleep(Duration::from_millis(5));
                }
                Err(e) => return Err(format!("{HARNESS_PREFIX} wait failed: {e}")),
            }
        }
    }
}

impl Drop for BinSession {
    fn drop(&mut self) {
        if let Ok(None) = self.child.try_wait() {
            let _ = self.line("quit");
            std::thread::sleep(Duration::from_millis(50));
            let _ = self.child.kill();
            let _ = self.child.wait();
        }
    }
}

// ------------------------------------------------------------------------------------------------
// a search run synchronously on the caller's thread through the cfg(inkayaku_verif) driver

pub struct SyncSearch {
    vs: inkayaku_engine_core::verif::VerifSearch<CommandUciTx>,
    rx: Receiver<UciTxCommand>,
}

impl SyncSearch {
    pub fn new() -> SyncSearch {
        let (tx, rx) = channel();
        SyncSearch { vs: inkayaku_engine_core::verif::VerifSearch::new(Arc::new(CommandUciTx::new(tx))), rx }
    }

    /// the transposition table keeps nothing (capacity 0): the search is then plain alpha-beta over the game tree and
    /// its value is the exact minimax value at EVERY depth (with a table, values of depth >= 4 searches legitimately
    /// depend on the order in which transpositions were met)
    pub fn without_table(mut self) -> SyncSearch {
        self.vs.set_table_capacity(0);
        self
    }

    pub fn contempt(&self) -> i32 {
        self.vs.contempt_factor()
    }

    pub fn position(&mut self, fen: &str, moves: &[String]) -> Result<(), String> {
        let f = Fen::from_str(fen).map_err(|e| format!("{HARNESS_PREFIX} engine rejects session FEN {fen}: {e:?}"))?;
        let mv: Vec<UciMove> = moves.iter().map(|m| UciMove::from_str(m).map_err(|e| format!("{HARNESS_PREFIX} bad session move {m}: {e:?}"))).collect::<Result<_, _>>()?;
        self.vs.set_position(f, mv);
        Ok(())
    }

    /// a search that ends by itself (depth limit); a panic inside the search is reported as text
    pub fn go(&mut self, spec: &GoSpec) -> Result<SearchOutput, String> {
        let go = spec.to_go();
        let r = catch_unwind(AssertUnwindSafe(|| self.vs.go(go)));
        if let Err(e) = r {
            let msg = e.downcast_ref::<String>().cloned().or_else(|| e.downcast_ref::<&str>().map(|s| s.to_string())).unwrap_or_default();
            return Err(format!("the search panicked: {msg}"));
        }
        let mut out = SearchOutput { infos: Vec::new(), best: None, ponder: None, others: 0 };
        let mut n_best = 0;
        while let Ok(m) = self.rx.try_recv() {
            match m {
                UciTxCommand::BestMove { best_move, ponder_move } => {
                    n_best += 1;
                    out.best = best_move;
                    out.ponder = ponder_move;
                }
                UciTxCommand::Info { info } => out.infos.push(info),
                _ => out.others += 1,
            }
        }
        if n_best != 1 {
            return Err(format!("{n_best} bestmove messages for one go"));
        }
        Ok(out)
    }
}
