//! Thin adapter over the code under test (the `inkayaku_board` crate): snapshots, square mapping,
//! conversions to and from the reference model (always through FEN text written by the model).

use inkayaku_board::constants::{BLACK, WHITE};
use inkayaku_board::{Bitboard, Move};
use inkayaku_core::constants::Square;
use inkayaku_core::fen::Fen;

use crate::refmodel::{file_of, rank_of, sq, Color, Kind, Mv, Pos, Sq};

/// engine square index (a8 = 0, h1 = 63) of a model square (a1 = 0)
pub fn to_eng_sq(s: Sq) -> u32 {
    ((7 - rank_of(s)) * 8 + file_of(s)) as u32
}

pub fn from_eng_sq(e: u32) -> Sq {
    sq((e % 8) as i32, 7 - (e / 8) as i32)
}

/// Everything that makes up "the chess position" inside a `Bitboard`, deliberately excluding
/// `occupancy[0]`, which make/unmake use as a scratch slot (see DESIGN §1).
#[derive(Clone, PartialEq, Eq, Debug)]
pub struct Snap {
    pub fen: String,
    pub pieces: [[u64; 6]; 2],
    pub rights: [bool; 4],
    pub ep: u32,
    pub turn: u32,
    pub half: u32,
    pub full: u32,
    pub hash: u64,
    pub pawn_hash: u64,
}

pub fn pieces_of(b: &Bitboard) -> [[u64; 6]; 2] {
    let mut p = [[0u64; 6]; 2];
    for k in 1..=6u64 {
        p[0][k as usize - 1] = b.white.occupancy(k);
        p[1][k as usize - 1] = b.black.occupancy(k);
    }
    p
}

/// FEN text from the raw fields, without going through `Fen::from(&Bitboard)` (which panics when two
/// pieces share a square and re-parses its own output).
pub fn raw_fen(b: &Bitboard) -> String {
    let pieces = pieces_of(b);
    let mut s = String::new();
    for rank in 0..8 {
        let mut empty = 0;
        for file in 0..8 {
            let bit = 1u64 << (rank * 8 + file);
            let mut found: Vec<char> = Vec::new();
            for c in 0..2 {
                for k in 0..6 {
                    if pieces[c][k] & bit != 0 {
                        let l = ['p', 'n', 'b', 'r', 'q', 'k'][k];
                        found.push(if c == 0 { l.to_ascii_uppercase() } else { l });
                    }
                }
            }
            if found.is_empty() {
                empty += 1;
            } else {
                if empty > 0 {
                    s.push_str(&empty.to_string());
                    empty = 0;
                }
                if found.len() == 1 {
                    s.push(found[0]);
                } else {
                    // corrupt board: several pieces on one square; make it visible
                    s.push('{');
                    s.extend(found);
                    s.push('}');
                }
            }
        }
        if empty > 0 {
            s.push_str(&empty.to_string());
        }
        if rank < 7 {
            s.push('/');
        }
    }
    s.push(' ');
    s.push(if b.turn == WHITE { 'w' } else if b.turn == BLACK { 'b' } else { '?' });
    s.push(' ');
    let mut c = String::new();
    if b.white.king_side_castle {
        c.push('K');
    }
    if b.white.queen_side_castle {
        c.push('Q');
    }
    if b.black.king_side_castle {
        c.push('k');
    }
    if b.black.queen_side_castle {
        c.push('q');
    }
    if c.is_empty() {
        c.push('-');
    }
    s.push_str(&c);
    s.push(' ');
    if b.en_passant_square_shift == 0 {
        s.push('-');
    } else if b.en_passant_square_shift < 64 {
        s.push_str(&crate::refmodel::sq_name(from_eng_sq(b.en_passant_square_shift)));
    } else {
        s.push_str(&format!("?{}", b.en_passant_square_shift));
    }
    s.push_str(&format!(" {} {}", b.halfmove_clock, b.fullmove_clock));
    s
}

pub fn snap(b: &Bitboard) -> Snap {
    Snap {
        fen: raw_fen(b),
        pieces: pieces_of(b),
        rights: [b.white.king_side_castle, b.white.queen_side_castle, b.black.king_side_castle, b.black.queen_side_castle],
        ep: b.en_passant_square_shift,
        turn: b.turn,
        half: b.halfmove_clock,
        full: b.fullmove_clock,
        hash: b.calculate_zobrist_hash(),
        pawn_hash: b.calculate_zobrist_pawn_hash(),
    }
}

/// FEN as the code under test writes it.
pub fn eng_fen(b: &Bitboard) -> String {
    Fen::from(b).fen
}

pub fn board_from_pos(p: &Pos) -> Bitboard {
    Bitboard::from_fen_string(&p.fen()).unwrap_or_else(|e| panic!("HARNESS: engine rejected model FEN {}: {:?}", p.fen(), e))
}

pub fn board_from_fen(fen: &str) -> Option<Bitboard> {
    Bitboard::from_fen_string(fen).ok()
}

/// The engine's legal move list as UCI strings, in generation order (duplicates preserved).
pub fn legal_uci(b: &mut Bitboard) -> Vec<String> {
    b.generate_legal_moves().iter().map(Move::to_uci_string).collect()
}

/// Find the engine's own move object for a model move among its legal moves.
pub fn find_move(b: &mut Bitboard, m: Mv) -> Option<Move> {
    let u = m.uci();
    b.generate_legal_moves().into_iter().find(|x| x.to_uci_string() == u)
}

/// Find the engine's move object among its pseudo-legal moves WITHOUT any make/unmake on the board
/// (generate_legal_moves unmakes, and unmake only restores half-move clocks up to 4095).
pub fn find_pseudo(b: &Bitboard, m: Mv) -> Option<Move> {
    let u = m.uci();
    b.generate_pseudo_legal_moves().into_iter().find(|x| x.to_uci_string() == u)
}

pub fn sorted(mut v: Vec<String>) -> Vec<String> {
    v.sort();
    v
}

pub fn model_legal_uci(p: &Pos) -> Vec<String> {
    sorted(p.legal_moves().iter().map(Mv::uci).collect())
}

pub fn piece_at(b: &Bitboard, s: Sq) -> Option<(Color, Kind)> {
    let e = to_eng_sq(s) as usize;
    let square = Square::from_index(e)?;
    b.get_colored_piece(square).map(|cp| {
        let c = cp.fen;
        (if c.is_ascii_uppercase() { Color::White } else { Color::Black }, Kind::from_letter(c).expect("piece letter"))
    })
}
