//! C12 — FEN reading and writing are exact, inverse to each other, and total.

use std::str::FromStr;

use inkayaku_board::constants::{BLACK, WHITE};
use inkayaku_board::Bitboard;
use inkayaku_core::fen::Fen;
use proptest::prelude::*;
use serde::{Deserialize, Serialize};

use crate::eng;
use crate::gen::{self, ClockDomain};
use crate::refmodel::{Color, Pos};
use crate::run::{replay_case, run_part, Ctx, Part, Property};

pub fn property() -> Property {
    Property {
        id: "C12",
        level: "exploration",
        rule: "(valid) reference positions (all 16 right sets, e.p. squares, clocks up to u32::MAX) written by the harness's own FEN writer in 6- and 4-field form: accepted, decoded square by square / side / rights / e.p. / clocks (defaults 0 and 1), written back as the canonical text, re-read identically; (invalid) one grammar fault per case from 14 classes (incl. Unicode look-alikes of FEN characters): Fen::from_str is Err and Fen::is_valid false; (writer_after_history) the writer on ONE board object that went through a whole game with legality filtering (make/unmake) and tried-and-taken-back moves before every move: canonical FEN of the reference position at every ply, square by square; (total) arbitrary Unicode strings and byte-level mutations of valid FENs never panic in Fen::from_str, Fen::is_valid, Bitboard::from_fen_string. Non-trivial = distinct FEN text with rights / e.p. / large clocks (valid), distinct faulty text (invalid), distinct mutated text that is not valid (total)",
        assumptions: &["mutations that stay inside the grammar the code documents (e.p. on any rank, the literal 'startpos', surrounding white space) are not asserted to fail"],
        parts: vec![
            Part {
                name: "valid",
                quick: 60_000,
                thorough: 1_000_000,
                single_shard: false, supplementary: false,
                run: |cfg| run_part(cfg, (gen::raw_pos(80), any::<bool>(), any::<u8>(), any::<u32>(), any::<u32>()), |(r, four, sel, h, f)| valid_case(r, *four, *sel, *h, *f), check_valid),
                replay: |v| replay_case::<ValidCase, _>(v, check_valid),
            },
            Part {
                name: "invalid",
                quick: 60_000,
                thorough: 1_000_000,
                single_shard: false, supplementary: false,
                run: |cfg| run_part(cfg, (gen::raw_pos(40), 0..N_FAULTS, any::<u32>(), any::<u32>()), |(r, class, a, b)| invalid_case(r, *class, *a, *b), check_invalid),
                replay: |v| replay_case::<InvalidCase, _>(v, check_invalid),
            },
            Part {
                name: "total",
                quick: 200_000,
                thorough: 4_000_000,
                single_shard: false, supplementary: false,
                run: |cfg| run_part(cfg, total_strategy(), |s| TextCase { text: s.clone() }, check_total),
                replay: |v| replay_case::<TextCase, _>(v, check_total),
            },
            Part {
                name: "writer_after_history",
                quick: 6_000,
                thorough: 150_000,
                single_shard: false, supplementary: false,
                run: |cfg| run_part(cfg, (gen::raw_playout(60), any::<u16>()), |(r, probe)| hist_case(r, *probe), check_writer_after_history),
                replay: |v| replay_case::<HistCase, _>(v, check_writer_after_history),
            },
            crate::props::fuzz_corpus_part!("fen"),
        ],
    }
}

#[derive(Debug, Clone, Serialize, Deserialize)]
pub struct ValidCase {
    pub text: String,
    /// canonical 6-field FEN of the position the text describes
    pub canonical: String,
}

fn valid_case(r: &gen::RawPos, four: bool, sel: u8, h: u32, f: u32) -> ValidCase {
    let mut p = gen::position(r, ClockDomain::Keep);
    // clocks of any magnitude a u32 can hold
    p.half = match sel % 8 {
        0 => 0,
        1 => (h % 200) as u64,
        2 => u32::MAX as u64,
        3 => u32::MAX as u64 - 1,
        4 => 1_000_000_000,
        _ => h as u64,
    };
    p.full = match (sel / 8) % 8 {
        0 => 1,
        1 => 1 + (f % 300) as u64,
        2 => u32::MAX as u64,
        3 => 65_536,
        _ => (f as u64).max(1),
    };
    if four {
        let text = p.fen4();
        p.half = 0;
        p.full = 1;
        ValidCase { text, canonical: p.fen() }
    } else {
        ValidCase { text: p.fen(), canonical: p.fen() }
    }
}

pub fn check_valid(c: &ValidCase, ctx: &mut Ctx) -> Result<(), String> {
    let p = Pos::from_fen(&c.canonical).ok_or_else(|| format!("HARNESS: bad canonical {}", c.canonical))?;
    if let Err(e) = Fen::from_str(&c.text) {
        return Err(format!("valid FEN rejected by Fen::from_str: {:?}: {e:?}", c.text));
    }
    if !Fen::is_valid(&c.text) {
        return Err(format!("valid FEN rejected by Fen::is_valid: {:?}", c.text));
    }
    let b = Bitboard::from_fen_string(&c.text).map_err(|e| format!("valid FEN rejected by Bitboard::from_fen_string: {:?}: {e:?}", c.text))?;
    compare_board(&b, &p, &c.text)?;
    let written = Fen::from(&b).fen;
    if written != c.canonical {
        return Err(format!("writing back {:?} gives {written:?}, canonical is {:?}", c.text, c.canonical));
    }
    let b2 = Bitboard::from_fen_string(&written).map_err(|e| format!("the writer's own output {written:?} is rejected: {e:?}"))?;
    compare_board(&b2, &p, &written)?;
    if eng::snap(&b2) != eng::snap(&b) {
        return Err(format!("reading {:?}, writing and reading again does not give the same position", c.text));
    }
    let four = c.text.split(' ').count() == 4;
    ctx.class(if four { "four_fields" } else { "six_fields" });
    let mut nt = false;
    if p.castle.iter().any(|&x| x) {
        ctx.class(&format!("rights_{}", p.castle_str()));
        nt = true;
    }
    if p.ep.is_some() {
        ctx.class("ep_square");
        nt = true;
    }
    if p.half > 65_535 || p.full > 65_535 {
        ctx.class("clock_gt_65535");
        nt = true;
    }
    if nt {
        ctx.nontrivial(&c.text);
    }
    ctx.sample(|| serde_json::json!({"text": c.text}));
    Ok(())
}

fn compare_board(b: &Bitboard, p: &Pos, text: &str) -> Result<(), String> {
    for s in 0..64u8 {
        let got = eng::piece_at(b, s);
        if got != p.board[s as usize] {
            return Err(format!("decoding {text:?}: square {} holds {:?}, should hold {:?}", crate::refmodel::sq_name(s), got, p.board[s as usize]));
        }
    }
    let turn = if p.turn == Color::White { WHITE } else { BLACK };
    if b.turn != turn {
        return Err(format!("decoding {text:?}: side to move wrong"));
    }
    let rights = [b.white.king_side_castle, b.white.queen_side_castle, b.black.king_side_castle, b.black.queen_side_castle];
    if rights != p.castle {
        return Err(format!("decoding {text:?}: castling rights {rights:?}, should be {:?}", p.castle));
    }
    let ep = p.ep.map_or(0, eng::to_eng_sq);
    if b.en_passant_square_shift != ep {
        return Err(format!("decoding {text:?}: e.p. square index {}, should be {ep}", b.en_passant_square_shift));
    }
    if b.halfmove_clock as u64 != p.half || b.fullmove_clock as u64 != p.full {
        return Err(format!("decoding {text:?}: clocks {} {}, should be {} {}", b.halfmove_clock, b.fullmove_clock, p.half, p.full));
    }
    Ok(())
}

// ------------------------------------------------------------------------------------------------

pub const N_FAULTS: u32 = 15;

#[derive(Debug, Clone, Serialize, Deserialize)]
pub struct InvalidCase {
    pub class: String,
    pub text: String,
}

/// characters that look like / case-fold to a FEN character without being one
pub fn lookalikes(c: char) -> Vec<char> {
    match c {
        'k' | 'K' => vec!['\u{212A}', '\u{039A}', '\u{041A}', '\u{03BA}', '\u{043A}', '\u{FF4B}', '\u{FF2B}'],
        'p' | 'P' => vec!['\u{0440}', '\u{0420}', '\u{03A1}', '\u{03C1}', '\u{FF50}'],
        'b' | 'B' => vec!['\u{0392}', '\u{0412}', '\u{FF42}', '\u{044C}'],
        'n' | 'N' => vec!['\u{039D}', '\u{FF4E}', '\u{0578}'],
        'r' | 'R' => vec!['\u{FF52}', '\u{0433}', '\u{FF32}'],
        'q' | 'Q' => vec!['\u{FF51}', '\u{051B}', '\u{FF31}'],
        'w' => vec!['\u{FF57}', '\u{051D}'],
        '-' => vec!['\u{2212}', '\u{2013}', '\u{2010}'],
        '/' => vec!['\u{FF0F}', '\u{2215}'],
        'a'..='h' => vec![char::from_u32(0xFF41 + (c as u32 - 'a' as u32)).unwrap_or('\u{FF41}')],
        '0'..='9' => {
            let d = c as u32 - '0' as u32;
            vec![char::from_u32(0xFF10 + d).unwrap(), char::from_u32(0x0660 + d).unwrap(), char::from_u32(0x06F0 + d).unwrap(), char::from_u32(0x0966 + d).unwrap()]
        }
        _ => vec![],
    }
}

fn rank_sum(rank: &str) -> u32 {
    rank.chars().map(|c| c.to_digit(10).unwrap_or(1)).sum()
}

pub fn invalid_case(r: &gen::RawPos, class: u32, a: u32, b: u32) -> InvalidCase {
    let p = gen::position(r, ClockDomain::Keep);
    let fen = p.fen();
    let f: Vec<String> = fen.split(' ').map(str::to_string).collect();
    let join = |f: &[String]| f.join(" ");
    let pick = |n: usize, x: u32| (x as usize) % n.max(1);
    let (name, text): (&str, String) = match class {
        0 => {
            // wrong field count
            match a % 4 {
                0 => ("field_count_3", join(&f[0..3])),
                1 => ("field_count_5", join(&f[0..5])),
                2 => ("field_count_7", format!("{fen} 0")),
                _ => ("field_count_2", join(&f[0..2])),
            }
        }
        1 => {
            // doubled space between two fields
            let i = 1 + pick(5, a);
            let mut g = f.clone();
            g[i] = format!(" {}", g[i]);
            ("doubled_space", join(&g))
        }
        2 => {
            // illegal placement character
            let bad = ['x', '9', '0', 'Z', '-', 'e', 'z', '.', 'é'][pick(9, a)];
            let mut chars: Vec<char> = f[0].chars().collect();
            let idxs: Vec<usize> = (0..chars.len()).filter(|&i| chars[i] != '/').collect();
            let i = idxs[pick(idxs.len(), b)];
            chars[i] = bad;
            let mut g = f.clone();
            g[0] = chars.into_iter().collect();
            ("illegal_placement_char", join(&g))
        }
        3 | 4 => {
            // a rank that does not sum to eight
            let mut ranks: Vec<String> = f[0].split('/').map(str::to_string).collect();
            let i = pick(8, a);
            let rank = ranks[i].clone();
            let mut cand = match b % 4 {
                0 => format!("{rank}p"),
                1 => rank.chars().skip(1).collect::<String>(),
                2 => format!("N{rank}"),
                _ => {
                    let mut c: Vec<char> = rank.chars().collect();
                    if let Some(j) = c.iter().position(|x| x.is_ascii_digit()) {
                        let d = c[j].to_digit(10).unwrap();
                        c[j] = char::from_digit(if d < 8 { d + 1 } else { 7 }, 10).unwrap();
                    } else {
                        c.pop();
                    }
                    c.into_iter().collect()
                }
            };
            if cand.is_empty() || rank_sum(&cand) == 8 {
                cand = "pppp".to_string();
            }
            ranks[i] = cand;
            let mut g = f.clone();
            g[0] = ranks.join("/");
            ("rank_sum_not_8", join(&g))
        }
        5 => {
            // adjacent digits with the right sum
            let mut ranks: Vec<String> = f[0].split('/').map(str::to_string).collect();
            let cands: Vec<usize> = (0..8).filter(|&i| ranks[i].chars().any(|c| c.to_digit(10).map_or(false, |d| d >= 2))).collect();
            if cands.is_empty() {
                ranks[pick(8, a)] = "pppp".to_string();
                let mut g = f.clone();
                g[0] = ranks.join("/");
                ("rank_sum_not_8", join(&g))
            } else {
                let i = cands[pick(cands.len(), a)];
                let mut out = String::new();
                let mut done = false;
                for c in ranks[i].chars() {
                    match c.to_digit(10) {
                        Some(d) if d >= 2 && !done => {
                            let first = 1 + (b % (d - 1));
                            out.push(char::from_digit(first, 10).unwrap());
                            out.push(char::from_digit(d - first, 10).unwrap());
                            done = true;
                        }
                        _ => out.push(c),
                    }
                }
                ranks[i] = out;
                let mut g = f.clone();
                g[0] = ranks.join("/");
                ("adjacent_digits", join(&g))
            }
        }
        6 => {
            // seven or nine ranks
            let mut ranks: Vec<String> = f[0].split('/').map(str::to_string).collect();
            let name = if a % 2 == 0 {
                ranks.remove(pick(8, b));
                "seven_ranks"
            } else {
                ranks.insert(pick(9, b), "8".to_string());
                "nine_ranks"
            };
            let mut g = f.clone();
            g[0] = ranks.join("/");
            (name, join(&g))
        }
        7 => {
            let bad = ["W", "B", "x", "white", "wb", "-", "0"][pick(7, a)];
            let mut g = f.clone();
            g[1] = bad.to_string();
            ("bad_side", join(&g))
        }
        8 | 9 => {
            let bad = ["QK", "KK", "kK", "qk", "KQkqK", "A", "KQqk", "HAha", "K-", "--", "kQ", "kKq", "QQ", "x", "0"][pick(15, a)];
            let mut g = f.clone();
            g[2] = bad.to_string();
            ("bad_castling", join(&g))
        }
        10 => {
            let bad = ["i3", "e9", "e0", "e", "e33", "E3", "--", "3e", "h", "a-", "z6", "é3"][pick(12, a)];
            let mut g = f.clone();
            g[3] = bad.to_string();
            ("bad_en_passant", join(&g))
        }
        11 => {
            let bad = ["-1", "+1", "x", "1.5", "1e3", "0x10", "١", "1_0", "-", "one"][pick(10, a)];
            let mut g = f.clone();
            g[4 + pick(2, b)] = bad.to_string();
            ("bad_clock", join(&g))
        }
        13 | 14 => {
            // ONE character replaced by a Unicode look-alike / case-folding relative (Kelvin sign, full-width,
            // Greek / Cyrillic homoglyphs, other digit scripts): none of them is a FEN character
            let field = [0usize, 0, 0, 1, 2, 3, 4, 5][pick(8, a)];
            let mut chars: Vec<char> = f[field].chars().collect();
            let idxs: Vec<usize> = (0..chars.len()).filter(|&i| !lookalikes(chars[i]).is_empty()).collect();
            if idxs.is_empty() {
                let mut g = f.clone();
                g[1] = "\u{ff57}".to_string();
                ("unicode_lookalike", join(&g))
            } else {
                let i = idxs[pick(idxs.len(), b)];
                let l = lookalikes(chars[i]);
                chars[i] = l[pick(l.len(), b / 64)];
                let mut g = f.clone();
                g[field] = chars.into_iter().collect();
                ("unicode_lookalike", join(&g))
            }
        }
        _ => {
            // grammatical digit run that no u32 can hold: must be rejected rather than crash the decoder
            let bad = ["4294967296", "99999999999", "18446744073709551616", "00000000004294967296", "340282366920938463463374607431768211456"][pick(5, a)];
            let mut g = f.clone();
            g[4 + pick(2, b)] = bad.to_string();
            ("clock_overflows_u32", join(&g))
        }
    };
    InvalidCase { class: name.to_string(), text }
}

pub fn check_invalid(c: &InvalidCase, ctx: &mut Ctx) -> Result<(), String> {
    if let Ok(fen) = Fen::from_str(&c.text) {
        return Err(format!("FEN with fault '{}' accepted by Fen::from_str: {:?} (parsed as {:?})", c.class, c.text, fen.fen));
    }
    if Fen::is_valid(&c.text) {
        return Err(format!("FEN with fault '{}' accepted by Fen::is_valid: {:?}", c.class, c.text));
    }
    if Bitboard::from_fen_string(&c.text).is_ok() {
        return Err(format!("FEN with fault '{}' accepted by Bitboard::from_fen_string: {:?}", c.class, c.text));
    }
    ctx.class(&c.class);
    ctx.nontrivial(&c.text);
    ctx.sample(|| serde_json::json!({"class": c.class, "text": c.text}));
    Ok(())
}

// ------------------------------------------------------------------------------------------------

#[derive(Debug, Clone, Serialize, Deserialize)]
pub struct TextCase {
    pub text: String,
}

const FEN_DICT: [&str; 24] = [
    "rnbqkbnr/pppppppp/8/8/8/8/PPPPPPPP/RNBQKBNR", "8/8/8/8/8/8/8/8", "w", "b", "KQkq", "-", "e3", "c6", "0", "1", "4294967295", "4294967296", "99999999999999999999", " ", "/", "8", "44", "startpos", "k7/8/8/8/8/8/8/K7", "Kq", "a8", "h1", "١", "𝟙",
];

fn total_strategy() -> impl Strategy<Value = String> {
    let seeds: Vec<String> = gen::seeds().iter().map(Pos::fen).collect();
    let n = seeds.len();
    prop_oneof![
        // arbitrary Unicode
        1 => any::<String>(),
        // FEN alphabet soup
        2 => proptest::collection::vec(prop_oneof![
                proptest::sample::select(vec!['p','n','b','r','q','k','P','N','B','R','Q','K','1','2','3','4','5','6','7','8','9','0','/',' ',' ','w','b','-','a','e','h','\t','\n','+']),
                any::<char>()
            ], 0..90).prop_map(|v| v.into_iter().collect::<String>()),
        // dictionary tokens joined by spaces
        3 => proptest::collection::vec(proptest::sample::select(FEN_DICT.to_vec()), 0..9).prop_map(|v| v.join(" ")),
        // long inputs (hundreds of bytes) mixing ASCII and multi-byte characters, bare or behind a valid FEN
        2 => (0..n + 1, proptest::collection::vec(prop_oneof![3 => proptest::sample::select(vec!['p', 'K', '8', '/', ' ', 'w', '-', '1', 'é', 'ß', '名', '😀', '\u{212A}', '٣']), 1 => any::<char>()], 60..400)).prop_map({
            let seeds = seeds.clone();
            move |(i, tail)| {
                let mut s = if i < seeds.len() { seeds[i].clone() } else { String::new() };
                s.extend(tail);
                s
            }
        }),
        // character-level mutations of a valid FEN
        6 => (0..n, proptest::collection::vec((any::<u16>(), 0..4u8, any::<char>(), 0..FEN_DICT.len()), 1..4)).prop_map(move |(i, muts)| {
            let mut chars: Vec<char> = seeds[i].chars().collect();
            for (pos, op, ch, d) in muts {
                let at = if chars.is_empty() { 0 } else { pos as usize % (chars.len() + 1) };
                match op {
                    0 => { if at < chars.len() { chars[at] = ch; } }
                    1 => { chars.insert(at, ch); }
                    2 => { if at < chars.len() { chars.remove(at); } }
                    _ => { for (k, c) in FEN_DICT[d].chars().enumerate() { chars.insert((at + k).min(chars.len()), c); } }
                }
            }
            chars.into_iter().collect::<String>()
        }),
        // field-level replacement with dictionary words (reaches the clock decoders)
        4 => (0..n, 0..6usize, 0..FEN_DICT.len()).prop_map(|(i, field, d)| {
            let s = gen::seeds()[i].fen();
            let mut f: Vec<&str> = s.split(' ').collect();
            f[field] = FEN_DICT[d];
            f.join(" ")
        }),
    ]
}

pub fn check_total(c: &TextCase, ctx: &mut Ctx) -> Result<(), String> {
    // a panic anywhere in here is caught by the driver and reported with this case
    let r = Fen::from_str(&c.text);
    let v = Fen::is_valid(&c.text);
    if r.is_ok() != v {
        return Err(format!("Fen::from_str and Fen::is_valid disagree on {:?}", c.text));
    }
    let b = Bitboard::from_fen_string(&c.text);
    if b.is_ok() != v {
        return Err(format!("Bitboard::from_fen_string and Fen::is_valid disagree on {:?}", c.text));
    }
    if v {
        ctx.class("accepted");
    } else {
        ctx.class("rejected");
        ctx.nontrivial(&c.text);
    }
    ctx.sample(|| serde_json::json!({"text": c.text, "accepted": v}));
    Ok(())
}

// ------------------------------------------------------------------------------------------------
// the writer on a board that has a history (the boards of the parts above are freshly decoded)

#[derive(Debug, Clone, Serialize, Deserialize)]
pub struct HistCase {
    pub game: gen::Game,
    pub probe: u16,
}

fn hist_case(r: &gen::RawPlayout, probe: u16) -> HistCase {
    // make/unmake carries 12 bits of the half-move clock (see C03): keep clock + length within them
    let g = gen::play(r, ClockDomain::Unmake);
    let mut start = g.start.clone();
    start.half = start.half.min(4095 - g.moves.len() as u64 - 1);
    HistCase { game: gen::Game { start: start.fen(), moves: g.moves.iter().map(crate::refmodel::Mv::uci).collect() }, probe }
}

pub fn check_writer_after_history(c: &HistCase, ctx: &mut Ctx) -> Result<(), String> {
    let mut p = Pos::from_fen(&c.game.start).ok_or_else(|| format!("HARNESS: bad start {}", c.game.start))?;
    let mut b = eng::board_from_pos(&p);
    let mut played: Vec<String> = Vec::new();
    let mut tried = 0usize;
    for (i, m) in c.game.moves.iter().enumerate() {
        let mv = crate::refmodel::Mv::parse(m).ok_or_else(|| format!("HARNESS: bad move {m}"))?;
        // what every user of the board does before moving: legality filtering makes and unmakes each candidate
        let em = eng::find_move(&mut b, mv).ok_or_else(|| format!("HARNESS: {m} not generated at {}", p.fen()))?;
        // and some candidates are tried and taken back explicitly
        let pseudo = b.generate_pseudo_legal_moves();
        if !pseudo.is_empty() {
            let mut t = pseudo[(c.probe as usize + i * 7919) % pseudo.len()];
            b.make(t);
            b.unmake(t);
            t = pseudo[(c.probe as usize * 31 + i) % pseudo.len()];
            let _ = b.is_move_legal(t);
            tried += 2;
        }
        b.make(em);
        p = p.apply(mv);
        played.push(m.clone());
        let written = Fen::from(&b).fen;
        if written != p.fen() {
            return Err(format!("after {} {played:?} (each preceded by legality filtering on the same board) the writer gives {written:?}, the position is {:?}", c.game.start, p.fen()));
        }
        compare_board(&b, &p, &format!("{} {played:?}", c.game.start))?;
        ctx.evals(1);
    }
    if played.len() >= 4 {
        ctx.class(&format!("plies_{}", (played.len() / 10 * 10).min(50)));
        ctx.nontrivial((c.game.start.clone(), c.game.moves.clone()));
    }
    let _ = tried;
    ctx.sample(|| serde_json::json!({"start": c.game.start, "plies": played.len(), "final": p.fen()}));
    Ok(())
}
