//! C17 — the PGN stream reader returns every game completely, however the input is chunked.

use std::collections::HashMap;
use std::io::Read;

use inkayaku_board::Bitboard;
use inkayaku_pgn::reader::PgnRawParser;
use proptest::prelude::*;
use serde::{Deserialize, Serialize};

use crate::eng;
use crate::gen::{self, ClockDomain};
use crate::refmodel::Pos;
use crate::run::{replay_case, run_part, Ctx, Part, Property};

pub fn property() -> Property {
    Property {
        id: "C17",
        level: "exploration",
        rule: "databases of 0..8 games in the Lichess export layout (tag-pair lines with typical keys and values containing spaces / punctuation / brackets, blank line, one-line movetext written by the REFERENCE SAN writer from generated legal games incl. castling by either side, promotions, checks; plain `1. e4 e5 2. ...` or commented `1. e4 { [%clk ..] } 1... e5 { .. }` style, optional !? suffixes; results 1-0 0-1 1/2-1/2 *; zero-move games; with / without final newline or trailing blank lines) read with chunk sizes 1..64 and 8192 through a reader that fragments its reads as generated. Oracle: the yielded sequence equals the generated games (tag map, SAN list in order, comment text); the result is identical for a second, different (chunk size, fragmentation) pair; replaying the yielded SAN through Bitboard::pgn_to_bb ends in the generated game's final position. Non-trivial = distinct database with >= 2 games, or a black O-O / O-O-O written without move number, or a chunk size smaller than the longest token",
        assumptions: &["ASCII only (the reader maps bytes to chars one by one); tag values without double quotes; comments without '}'"],
        parts: vec![Part {
            name: "databases",
            quick: 12_000,
            thorough: 300_000,
            single_shard: false, supplementary: false,
            run: |cfg| run_part(cfg, db_strategy(), |r| build_db(r), check_db),
            replay: |v| replay_case::<Db, _>(v, check_db),
        }, crate::props::fuzz_corpus_part!("pgn_stream")],
    }
}

#[derive(Debug, Clone, Serialize, Deserialize, PartialEq)]
pub struct GameSpec {
    pub tags: Vec<(String, String)>,
    pub moves: Vec<(String, Option<String>)>,
    pub final_fen: String,
}

#[derive(Debug, Clone, Serialize, Deserialize)]
pub struct Db {
    pub games: Vec<GameSpec>,
    pub text: String,
    pub chunk: usize,
    pub frags: Vec<u8>,
    pub chunk2: usize,
    pub frags2: Vec<u8>,
}

#[derive(Debug, Clone)]
struct RawGame {
    play: gen::RawPlayout,
    ntags: u8,
    tagvals: Vec<String>,
    style: u8,
    result: u8,
    zero: bool,
    salt: u32,
}

#[derive(Debug, Clone)]
pub struct RawDb {
    games: Vec<RawGame>,
    trailing: u8,
    chunk: u16,
    frags: Vec<u8>,
    chunk2: u16,
    frags2: Vec<u8>,
}

const TAG_KEYS: [&str; 16] = ["Event", "Site", "Date", "Round", "White", "Black", "Result", "UTCDate", "UTCTime", "WhiteElo", "BlackElo", "WhiteRatingDiff", "ECO", "Opening", "TimeControl", "Termination"];

fn tag_value() -> impl Strategy<Value = String> {
    prop_oneof![
        3 => "[A-Za-z0-9 .,:/?+=_'()-]{0,24}",
        1 => proptest::sample::select(vec!["Rated Blitz game", "https://lichess.org/PpwPOZMq", "2012.12.31", "?", "1-0", "1/2-1/2", "*", "300+3", "King's Gambit Accepted, Fischer Defense", "Normal", "-", "Rated Bullet [arena] tournament", "O-O", "a] [b"]).prop_map(str::to_string),
    ]
}

fn db_strategy() -> impl Strategy<Value = RawDb> {
    let game = (prop_oneof![12 => gen::raw_playout(120), 1 => gen::raw_playout(700)], 1..=16u8, proptest::collection::vec(tag_value(), 16), 0..6u8, 0..4u8, any::<u8>(), any::<u32>()).prop_map(|(play, ntags, tagvals, style, result, zero, salt)| RawGame { play, ntags, tagvals, style, result, zero: zero % 10 == 0, salt });
    let chunk = prop_oneof![4 => 1..=64u16, 1 => Just(8192u16), 1 => 65..=300u16];
    let chunk_b = prop_oneof![4 => 1..=64u16, 1 => Just(8192u16), 1 => 65..=300u16];
    (proptest::collection::vec(game, 0..=8), 0..5u8, chunk, proptest::collection::vec(1..=20u8, 0..12), chunk_b, proptest::collection::vec(1..=20u8, 0..12)).prop_map(|(games, trailing, chunk, frags, chunk2, frags2)| RawDb { games, trailing, chunk, frags, chunk2, frags2 })
}

fn render_game(g: &RawGame) -> (GameSpec, String) {
    let mut play = g.play.clone();
    play.seed = 0;
    play.flip = false;
    let gp = if g.zero { gen::play_from(Pos::start(), &[]) } else { gen::play(&play, ClockDomain::Keep) };
    let mut tags: Vec<(String, String)> = Vec::new();
    for i in 0..(g.ntags as usize).min(TAG_KEYS.len()) {
        tags.push((TAG_KEYS[i].to_string(), g.tagvals[i].clone()));
    }
    let mut text = String::new();
    for (k, v) in &tags {
        text.push_str(&format!("[{k} \"{v}\"]\n"));
    }
    text.push('\n');
    let mut moves: Vec<(String, Option<String>)> = Vec::new();
    let mut parts: Vec<String> = Vec::new();
    let mut salt = g.salt | 1;
    for (i, m) in gp.moves.iter().enumerate() {
        let p = &gp.positions[i];
        let mut san = p.san(*m);
        salt ^= salt << 13;
        salt ^= salt >> 17;
        salt ^= salt << 5;
        if g.style == 4 && salt % 7 == 0 {
            san.push_str(["!", "?", "!?", "?!", "!!", "??"][(salt / 7 % 6) as usize]);
        }
        let white = i % 2 == 0;
        let number = i / 2 + 1;
        let commented = matches!(g.style, 1 | 2 | 5);
        let comment = if commented {
            Some(match g.style {
                1 => format!(" [%clk 0:{:02}:{:02}] ", 5 - (i / 30).min(5), 59 - i % 60),
                2 => format!(" [%eval {}.{}] [%clk 0:00:{:02}] ", (salt % 9) as i32 - 4, salt / 9 % 100, salt / 900 % 60),
                _ => match salt % 6 {
                    0 | 1 => " book move ".to_string(),
                    // an empty and a blank comment: tokenising must survive them (whether they are yielded as an empty
                    // comment or as no comment is not fixed by the property: both are accepted below)
                    2 => "\u{1}".to_string(),
                    3 => "\u{2}".to_string(),
                    _ => String::new(),
                },
            })
        } else {
            None
        };
        // style 5 comments only some moves
        let comment = if g.style == 5 && comment.as_deref() == Some("") { None } else { comment };
        if white {
            parts.push(format!("{number}."));
        } else if i > 0 && moves[i - 1].1.is_some() {
            // after a comment the move number is repeated for black
            parts.push(format!("{number}..."));
        }
        parts.push(san.clone());
        // (markers \u{1} / \u{2} stand for `{}` and `{ }`)
        let comment = comment.map(|c| match c.as_str() {
            "\u{1}" => String::new(),
            "\u{2}" => " ".to_string(),
            _ => c,
        });
        if let Some(c) = &comment {
            parts.push(format!("{{{c}}}"));
        }
        moves.push((san, comment));
    }
    parts.push(["1-0", "0-1", "1/2-1/2", "*"][g.result as usize % 4].to_string());
    text.push_str(&parts.join(" "));
    (GameSpec { tags, moves, final_fen: gp.last().fen() }, text)
}

fn build_db(r: &RawDb) -> Db {
    let mut games = Vec::new();
    let mut text = String::new();
    for (i, g) in r.games.iter().enumerate() {
        let (spec, t) = render_game(g);
        games.push(spec);
        text.push_str(&t);
        let last = i + 1 == r.games.len();
        if !last {
            text.push_str("\n\n");
        }
    }
    match r.trailing {
        0 => {}
        1 => text.push('\n'),
        2 => text.push_str("\n\n"),
        3 => text.push_str("\n\n\n"),
        _ => text.push_str("\n \n"),
    }
    if r.games.is_empty() && r.trailing == 4 {
        text = "\n\n".to_string();
    }
    Db { games, text, chunk: r.chunk.max(1) as usize, frags: r.frags.clone(), chunk2: r.chunk2.max(1) as usize, frags2: r.frags2.clone() }
}

/// a reader that returns short reads according to a generated schedule
struct FragRead<'a> {
    data: &'a [u8],
    pos: usize,
    frags: &'a [u8],
    i: usize,
}

impl<'a> Read for FragRead<'a> {
    fn read(&mut self, buf: &mut [u8]) -> std::io::Result<usize> {
        if self.pos >= self.data.len() || buf.is_empty() {
            return Ok(0);
        }
        let want = if self.frags.is_empty() {
            buf.len()
        } else {
            let f = self.frags[self.i % self.frags.len()] as usize;
            self.i += 1;
            f.max(1)
        };
        let n = want.min(buf.len()).min(self.data.len() - self.pos);
        buf[..n].copy_from_slice(&self.data[self.pos..self.pos + n]);
        self.pos += n;
        Ok(n)
    }
}

type Read1 = Vec<Result<(HashMap<String, String>, Vec<(String, Option<String>)>), String>>;

fn read_all(text: &str, chunk: usize, frags: &[u8]) -> Read1 {
    let r = FragRead { data: text.as_bytes(), pos: 0, frags, i: 0 };
    let mut out = Vec::new();
    for item in PgnRawParser::with_chunk_size(r, chunk) {
        match item {
            Ok(g) => out.push(Ok((g.tag_pairs, g.moves.into_iter().map(|m| (m.mv, m.annotation)).collect()))),
            Err(e) => {
                out.push(Err(format!("{e:?}")));
                if out.len() > 64 {
                    break;
                }
            }
        }
        if out.len() > 64 {
            break;
        }
    }
    out
}

fn show(text: &str) -> String {
    if text.len() > 700 {
        format!("{:?}… ({} bytes)", &text[..700], text.len())
    } else {
        format!("{text:?}")
    }
}

pub fn check_db(d: &Db, ctx: &mut Ctx) -> Result<(), String> {
    let got = read_all(&d.text, d.chunk, &d.frags);
    let what = format!("chunk size {} fragmentation {:?} input {}", d.chunk, d.frags, show(&d.text));
    if got.len() != d.games.len() {
        return Err(format!("{} game(s) written, {} item(s) yielded ({:?}); {what}", d.games.len(), got.len(), got.iter().map(|g| g.as_ref().map(|x| x.1.len()).map_err(|e| e.clone())).collect::<Vec<_>>()));
    }
    for (i, (g, w)) in got.iter().zip(&d.games).enumerate() {
        let (tags, moves) = match g {
            Ok(x) => x,
            Err(e) => return Err(format!("game #{} is yielded as error {e}; {what}", i + 1)),
        };
        let want_tags: HashMap<String, String> = w.tags.iter().cloned().collect();
        if *tags != want_tags {
            return Err(format!("game #{}: tag pairs {:?}, written {:?}; {what}", i + 1, tags, want_tags));
        }
        // a blank comment may be yielded as it is or as "no comment"
        let same = |a: &(String, Option<String>), b: &(String, Option<String>)| a.0 == b.0 && (a.1 == b.1 || (b.1.as_deref().map_or(false, |t| t.trim().is_empty()) && a.1.is_none()));
        if moves.len() != w.moves.len() || !moves.iter().zip(&w.moves).all(|(a, b)| same(a, b)) {
            let k = moves.iter().zip(&w.moves).position(|(a, b)| !same(a, b)).unwrap_or(moves.len().min(w.moves.len()));
            return Err(format!("game #{}: {} moves yielded, {} written; first difference at move index {k}: yielded {:?}, written {:?}; {what}", i + 1, moves.len(), w.moves.len(), moves.get(k), w.moves.get(k)));
        }
        // replay on a board
        let mut b = Bitboard::default();
        for (k, (san, _)) in moves.iter().enumerate() {
            match b.pgn_to_bb(san) {
                Ok(mv) => b.make(mv),
                Err(_) => return Err(format!("game #{}: yielded move #{} {san:?} cannot be replayed from {}; {what}", i + 1, k + 1, eng::eng_fen(&b))),
            }
        }
        if eng::eng_fen(&b) != w.final_fen {
            return Err(format!("game #{}: replaying the yielded moves ends in {}, the written game in {}; {what}", i + 1, eng::eng_fen(&b), w.final_fen));
        }
    }
    // chunking independence: another (chunk size, fragmentation) must give the identical result
    let again = read_all(&d.text, d.chunk2, &d.frags2);
    if again != got {
        return Err(format!("result depends on the chunking: chunk {} / fragmentation {:?} yields {} item(s), chunk {} / fragmentation {:?} yields {} item(s) (first difference at item {}); input {}", d.chunk, d.frags, got.len(), d.chunk2, d.frags2, again.len(), got.iter().zip(&again).position(|(a, b)| a != b).unwrap_or(got.len().min(again.len())) + 1, show(&d.text)));
    }
    let mut nt = d.games.len() >= 2;
    ctx.class(match d.games.len() {
        0 => "games_0",
        1 => "games_1",
        _ => "games_2_or_more",
    });
    let longest = d.text.split(|c| c == ' ' || c == '\n').map(str::len).max().unwrap_or(0);
    if d.chunk < longest {
        ctx.class("chunk_smaller_than_longest_token");
        nt = true;
    }
    if !d.frags.is_empty() {
        ctx.class("fragmented_reads");
    }
    if !d.text.ends_with('\n') && !d.games.is_empty() {
        ctx.class("no_final_newline");
    }
    for g in &d.games {
        if g.moves.len() > 510 {
            ctx.class("game_longer_than_255_moves");
            nt = true;
        }
        if g.moves.is_empty() {
            ctx.class("zero_move_game");
        }
        for (i, (san, c)) in g.moves.iter().enumerate() {
            if san.starts_with("O-O") {
                if i % 2 == 1 && (i == 0 || g.moves[i - 1].1.is_none()) {
                    ctx.class("black_castling_without_move_number");
                    nt = true;
                } else {
                    ctx.class("castling");
                }
            }
            if c.as_deref().map_or(false, |t| t.trim().is_empty()) {
                ctx.class("blank_comment");
            }
            if c.is_some() {
                ctx.class("commented_move");
            }
        }
    }
    if nt {
        ctx.nontrivial((&d.text, d.chunk, &d.frags));
    }
    ctx.sample(|| serde_json::json!({"games": d.games.len(), "bytes": d.text.len(), "chunk": d.chunk, "fragmentation": d.frags, "head": d.text.chars().take(300).collect::<String>()}));
    Ok(())
}
