//! C10 — draw rules in search: threefold repetition and the fifty-move rule.

use std::sync::mpsc::channel;
use std::sync::Arc;

use inkayaku_engine_core::verif::{VerifHistory, VerifSearch};
use inkayaku_uci::command::CommandUciTx;
use proptest::prelude::*;
use serde::{Deserialize, Serialize};

use crate::eng;
use crate::engsess::{score_text, GoSpec, Session};
use crate::gen::{self, ClockDomain};
use crate::props::c07::root_of;
use crate::props::c08::run_search;
use crate::refmodel::{Kind, Mv, Pos};
use crate::refsearch::{self, Stats, INF};
use crate::run::{replay_case, run_part, Ctx, Part, Property, HARNESS_PREFIX};

pub fn property() -> Property {
    Property {
        id: "C10",
        level: "exploration",
        rule: "(counter) the private repetition counter (hook) on synthetic hash histories over a two-sided 3-symbol state space (repeats are dense, minimum recurrence distance 4 as in chess) with arbitrary start index and half-move window, and on real games with injected shuffling phases: 'count >= 3' <=> a naive count of equal entries at same-parity indices inside the window / of equal reference position keys; (engine) `position fen F moves H` + `go depth 1|2 searchmoves m` where H is built from a reversible move quadruple so that m (depth 1) or a reply to m (depth 2) produces exactly the 2nd or the 3rd occurrence: third occurrence => the score is the draw score up to the contempt offset (either sign), regardless of material; second occurrence => the ordinary value; (forced_repetition) positions found by search in which the side to move can force the position to recur (two checks with single replies returning to the start), given with a history in which it has already occurred twice, `go depth 4..6`: the score must be at least the draw score (minus contempt), whatever the material; (fifty) pawnless / quiet endgames with half-move clock h in 0..150: for h + depth < 100 the score equals the reference value computed with the clock ignored (never an early draw); h + depth >= 100 is only counted. Non-trivial = distinct (FEN, history, move) where draw and non-draw valuations differ",
        assumptions: &["e.p. squares never occur inside the generated repetition windows (the code's e.p.-in-key convention and the FIDE one differ there)", "contempt value read through the hook; both sign conventions accepted"],
        parts: vec![
            Part {
                name: "counter",
                quick: 60_000,
                thorough: 600_000,
                single_shard: false, supplementary: false,
                run: |cfg| run_part(cfg, (0..4900u16, prop_oneof![3 => proptest::collection::vec(any::<u8>(), 1..60), 2 => proptest::collection::vec(any::<u8>(), 100..260)], any::<u16>(), any::<u16>(), 3..=9u8), |(base, steps, at, win, k)| counter_case(*base, steps, *at, *win, *k), check_counter),
                replay: |v| replay_case::<CounterCase, _>(v, check_counter),
            },
            Part {
                name: "game_histories",
                quick: 6_000,
                thorough: 60_000,
                single_shard: false, supplementary: false,
                run: |cfg| run_part(cfg, gen::raw_playout(80), |r| shuffle_game(r), check_game_history),
                replay: |v| replay_case::<gen::Game, _>(v, check_game_history),
            },
            Part {
                name: "engine",
                quick: 2_000,
                thorough: 15_000,
                single_shard: false, supplementary: false,
                run: |cfg| run_part(cfg, (gen::raw_pos(60), 0..10u8, any::<u16>()), |(r, k, x)| rep_case(r, *k, *x), check_engine_rep),
                replay: |v| replay_case::<RepCase, _>(v, check_engine_rep),
            },
            Part {
                name: "forced_repetition",
                quick: 10_000,
                thorough: 100_000,
                single_shard: false, supplementary: false,
                run: |cfg| run_part(cfg, (prop_oneof![3 => gen::raw_synth_profiles(6, 7).prop_map(gen::RawPos::Synth), 1 => gen::raw_pos_endgames()], 4..=6u32), |(r, d)| forced_case(r, *d), check_forced),
                replay: |v| replay_case::<ForcedCase, _>(v, check_forced),
            },
            Part {
                name: "deep_repetition",
                quick: 640,
                thorough: 30_000,
                single_shard: false, supplementary: false,
                run: |cfg| run_part(cfg, (prop_oneof![2 => gen::raw_synth_profiles(0, 9).prop_map(gen::RawPos::Synth), 1 => gen::raw_pos_endgames(), 1 => gen::raw_pos(60)], 4..=6u32, any::<u16>()), |(r, d, x)| deep_rep_case(r, *d, *x), |c, ctx| crate::props::c08::check_deep(c, ctx)),
                replay: |v| replay_case::<crate::props::c08::DeepCase, _>(v, |c, ctx| crate::props::c08::check_deep(c, ctx)),
            },
            Part {
                name: "fifty",
                quick: 1_600,
                thorough: 15_000,
                single_shard: false, supplementary: false,
                run: |cfg| run_part(cfg, (gen::raw_pos_endgames(), 0..151u32, 1..=2u32), |(r, h, d)| fifty_case(r, *h, *d), check_fifty),
                replay: |v| replay_case::<FiftyCase, _>(v, check_fifty),
            },
        ],
    }
}

// ------------------------------------------------------------------------------------------------
// (a) the counter against synthetic histories

#[derive(Debug, Clone, Serialize, Deserialize)]
pub struct CounterCase {
    /// index of the first recorded position
    pub base: u16,
    pub hashes: Vec<u64>,
    /// index (relative to base) whose repetitions are counted
    pub at: usize,
    pub window: u16,
}

fn mix(w: u8, b: u8, side: u8) -> u64 {
    let x = (w as u64) << 16 | (b as u64) << 8 | side as u64;
    (x.wrapping_add(0x9E37_79B9_7F4A_7C15)).wrapping_mul(0xBF58_476D_1CE4_E5B9) | 1
}

fn counter_case(base: u16, steps: &[u8], at: u16, win: u16, k: u8) -> CounterCase {
    // white and black alternately change their own symbol (never to the same symbol): like chess,
    // a position can recur after 4 plies at the earliest
    let (mut w, mut b) = (0u8, 0u8);
    let mut hashes = vec![mix(w, b, (base % 2) as u8)];
    for (i, s) in steps.iter().enumerate() {
        let ply = base as usize + i;
        // (k symbols per side: with larger k positions recur rarely, so that in long histories "three times"
        // often hinges on an occurrence more than 100 plies back)
        if ply % 2 == 0 {
            w = (w + 1 + s % (k - 1)) % k;
        } else {
            b = (b + 1 + s % (k - 1)) % k;
        }
        hashes.push(mix(w, b, ((ply + 1) % 2) as u8));
    }
    let n = hashes.len();
    let at = gen::pick(at as u32, 16, n);
    // windows around the interesting sizes: up to the distance to the first record and a bit beyond
    let window = match win % 4 {
        0 => win / 4 % (at as u16 + 1),
        1 => at as u16,
        2 => win / 4 % 8,
        _ => win / 4 % (at as u16 + 6),
    };
    // (the property speaks of half-move clocks 0..150)
    CounterCase { base: base.min(4999 - n as u16), hashes, at, window: window.min(150) }
}

pub fn check_counter(c: &CounterCase, ctx: &mut Ctx) -> Result<(), String> {
    if c.base as usize + c.hashes.len() > 5000 {
        return Err(format!("{HARNESS_PREFIX} history does not fit"));
    }
    let mut h = VerifHistory::new();
    for (i, x) in c.hashes.iter().enumerate() {
        h.set(c.base + i as u16, *x);
    }
    let idx = c.base as i64 + c.at as i64;
    let got = h.count_repetitions(idx as u16, c.window);
    // naive: occurrences of the same hash at same-parity indices inside the window (the current one included)
    let lo = (idx - c.window as i64).max(0);
    let mut n = 0;
    let mut j = idx;
    while j >= lo {
        let rel = j - c.base as i64;
        let v = if rel >= 0 { c.hashes[rel as usize] } else { 0 };
        if v == c.hashes[c.at] {
            n += 1;
        }
        j -= 2;
    }
    if (got >= 3) != (n >= 3) {
        return Err(format!("count_repetitions(index {idx}, window {}) = {got} but the position recorded there occurs {n} time(s) inside the window (history of {} entries from index {})", c.window, c.hashes.len(), c.base));
    }
    if c.window > 100 {
        ctx.class("window_gt_100");
        let within_100 = (0..=50).filter(|i| { let j = c.at as i64 - 2 * i; j >= 0 && c.hashes[j as usize] == c.hashes[c.at] }).count();
        if n >= 3 && within_100 < 3 {
            ctx.class("third_occurrence_more_than_100_plies_back");
        }
    }
    ctx.class(match n {
        0 | 1 => "occurs_once",
        2 => "occurs_twice",
        _ => "occurs_three_or_more",
    });
    if n >= 2 {
        ctx.nontrivial((c.base, &c.hashes, c.at, c.window));
    }
    // the same question with a window that just excludes / includes the earliest occurrence
    ctx.sample(|| serde_json::json!({"base": c.base, "entries": c.hashes.len(), "at": c.at, "window": c.window, "occurrences": n}));
    Ok(())
}

// ------------------------------------------------------------------------------------------------
// (a') real games with shuffling phases

fn quiet_reversible(p: &Pos, m: Mv) -> bool {
    let k = p.board[m.from as usize].map(|x| x.1);
    !p.is_capture(m) && m.promo.is_none() && !p.is_castle(m) && k != Some(Kind::Pawn)
}

fn shuffle_game(r: &gen::RawPlayout) -> gen::Game {
    let mut start = gen::seed_position(r, ClockDomain::Engine);
    start.full = start.full.min(1900);
    let mut cur = start.clone();
    let mut moves: Vec<Mv> = Vec::new();
    for &c in &r.choices {
        let legal = cur.legal_moves();
        if legal.is_empty() {
            break;
        }
        // half of the time: take back the own previous move (creates repetitions)
        let undo = if moves.len() >= 2 && c % 2 == 0 {
            let prev = moves[moves.len() - 2];
            let back = Mv { from: prev.to, to: prev.from, promo: None };
            if legal.contains(&back) && quiet_reversible(&cur, back) {
                Some(back)
            } else {
                None
            }
        } else {
            None
        };
        let m = undo.unwrap_or_else(|| gen::choose_move(&cur, &legal, c / 2));
        cur = cur.apply(m);
        moves.push(m);
    }
    gen::Game { start: start.fen(), moves: moves.iter().map(Mv::uci).collect() }
}

pub fn check_game_history(c: &gen::Game, ctx: &mut Ctx) -> Result<(), String> {
    let g = c.to_gamep()?;
    let mut h = VerifHistory::new();
    let mut b = eng::board_from_pos(&g.start);
    for (i, p) in g.positions.iter().enumerate() {
        // exactly what set_position_from records: ply_clock -> hash of the position
        let ply = b.ply_clock();
        h.set(ply, b.calculate_zobrist_hash());
        let got = h.count_repetitions(ply, b.halfmove_clock as u16);
        // rules: same position (placement, side, rights, e.p.) since the last capture or pawn move
        let lo = i.saturating_sub(p.half as usize);
        let occ = (lo..=i).filter(|&j| g.positions[j].key() == p.key()).count();
        let ep_in_window = (lo..=i).any(|j| g.positions[j].ep.is_some());
        if !ep_in_window && (got >= 3) != (occ >= 3) {
            return Err(format!("after {:?} from {}: the position {} has occurred {occ} time(s) since the last irreversible move, but the engine's history counts {got}", &c.moves[..i], c.start, p.fen()));
        }
        ctx.evals(1);
        if occ >= 2 && !ep_in_window {
            ctx.class(if occ >= 3 { "third_or_later_occurrence" } else { "second_occurrence" });
            ctx.nontrivial((c.start.clone(), i, p.fen4()));
        }
        if i < g.moves.len() {
            let mv = eng::find_pseudo(&b, g.moves[i]).ok_or_else(|| format!("legal move {} not offered (see C01)", g.moves[i]))?;
            b.make(mv);
        }
    }
    ctx.sample(|| serde_json::json!({"start": c.start, "plies": c.moves.len()}));
    Ok(())
}

// ------------------------------------------------------------------------------------------------
// (b) engine level

#[derive(Debug, Clone, Serialize, Deserialize)]
pub struct RepCase {
    pub fen: String,
    pub history: Vec<String>,
    pub searchmove: String,
    pub depth: u32,
    /// an earlier game given to the same engine instance before this position (its history must not count)
    #[serde(default)]
    pub prior: Option<(String, Vec<String>)>,
    #[serde(default)]
    pub new_game_after_prior: bool,
    /// the GUI's usual order: `ucinewgame`, then `position`, then `go`
    #[serde(default)]
    pub newgame_first: bool,
}

fn shuffle_quad(p: &Pos, skip: u16) -> Option<[Mv; 4]> {
    let mut found = Vec::new();
    for a in p.legal_moves().into_iter().filter(|&m| quiet_reversible(p, m) && !rights_touch(p, m)) {
        let p1 = p.apply(a);
        for b in p1.legal_moves().into_iter().filter(|&m| quiet_reversible(&p1, m) && !rights_touch(&p1, m)) {
            let p2 = p1.apply(b);
            let a2 = Mv { from: a.to, to: a.from, promo: None };
            if !p2.is_legal(a2) {
                continue;
            }
            let p3 = p2.apply(a2);
            let b2 = Mv { from: b.to, to: b.from, promo: None };
            if p3.is_legal(b2) && p3.apply(b2).key() == p.key() {
                found.push([a, b, a2, b2]);
                if found.len() > 12 {
                    break;
                }
            }
        }
        if found.len() > 12 {
            break;
        }
    }
    if found.is_empty() {
        None
    } else {
        Some(found[skip as usize % found.len()])
    }
}

fn rights_touch(p: &Pos, m: Mv) -> bool {
    p.castle.iter().any(|&c| c) && matches!(p.board[m.from as usize].map(|x| x.1), Some(Kind::King) | Some(Kind::Rook))
}

fn rep_case(r: &gen::RawPos, kind: u8, x: u16) -> RepCase {
    let mut p = gen::position(r, ClockDomain::Engine);
    p.ep = None;
    p.half = p.half.min(60);
    // depth-1 third occurrences also deep inside a quiet stretch (the repeated position then has a clock beyond 100: it is a
    // draw by repetition all the same, whatever the fifty-move rule says about it)
    if kind <= 1 && x % 4 == 2 {
        p.half = 93 + (x as u64 / 4 % 10);
        p.full = p.full.max(60);
    }
    let none = |p: &Pos| RepCase { fen: p.fen(), history: vec![], searchmove: String::new(), depth: 1, prior: None, new_game_after_prior: false, newgame_first: x % 16 >= 8 };
    let u = |m: Mv| m.uci();
    // kinds 8, 9: the first occurrence is CREATED by a capture or pawn move inside the move list
    if kind >= 8 {
        for x0 in p.legal_moves().into_iter().filter(|&m| p.is_capture(m) || matches!(p.board[m.from as usize], Some((_, Kind::Pawn)))).filter(|m| m.promo.is_none()).skip((x % 3) as usize).take(24) {
            let mut q = p.apply(x0);
            q.ep = None; // (model only; the engine's e.p. square after a double step would differ from later occurrences)
            if p.apply(x0).ep.is_some() {
                continue;
            }
            if let Some([a, b, a2, b2]) = shuffle_quad(&q, x) {
                let (hist, sm): (Vec<Mv>, Mv) = if kind == 8 { (vec![x0, a, b, a2, b2, a, b, a2], b2) } else { (vec![x0, a, b, a2], b2) };
                return RepCase { fen: p.fen(), history: hist.into_iter().map(u).collect(), searchmove: u(sm), depth: 1, prior: None, new_game_after_prior: false, newgame_first: x % 16 >= 8 };
            }
        }
        return none(&p);
    }
    let Some([a, b, a2, b2]) = shuffle_quad(&p, x) else {
        return none(&p);
    };
    // kinds 6, 7: an earlier game shuffled through the same position; then the position is given as a bare FEN
    // whose clocks place it right behind that game: the old game's history must not be counted
    if kind >= 6 {
        let prior_moves: Vec<String> = [a, b, a2, b2, a, b, a2, b2].iter().map(|&m| u(m)).collect();
        let mut t = p.clone();
        t.half += 8;
        t.full += 4;
        return RepCase { fen: t.fen(), history: vec![], searchmove: u(a), depth: 1 + (x % 2) as u32, prior: Some((p.fen(), prior_moves)), new_game_after_prior: kind == 7, newgame_first: false };
    }
    let (history, searchmove, depth): (Vec<Mv>, Mv, u32) = match kind {
        // depth 1, the searched move completes the THIRD occurrence of the root-of-history position
        0 | 1 => (vec![a, b, a2, b2, a, b, a2], b2, 1),
        // depth 1, only the SECOND occurrence
        2 => (vec![a, b, a2], b2, 1),
        // depth 2: a reply to the searched move can complete the third occurrence
        3 | 4 => (vec![a, b, a2, b2, a, b], a2, 2),
        // depth 2: only a second occurrence is reachable
        _ => (vec![a, b], a2, 2),
    };
    RepCase { fen: p.fen(), history: history.into_iter().map(u).collect(), searchmove: u(searchmove), depth, prior: None, new_game_after_prior: false, newgame_first: x % 16 >= 8 }
}

fn contempt() -> i32 {
    let (tx, _rx) = channel();
    VerifSearch::new(Arc::new(CommandUciTx::new(tx))).contempt_factor()
}

/// ordinary (draw-unaware) value of the position for the side to move, horizon resolved
fn leaf_value(p: &Pos) -> i32 {
    let mut b = eng::board_from_pos(p);
    let mut st = Stats { nodes: 0 };
    refsearch::negamax(&mut b, 0, -INF, INF, &mut st)
}

fn occurrences(history: &[Pos], p: &Pos) -> usize {
    // positions since the last irreversible move: those within p.half plies before p
    let n = history.len();
    let lo = n.saturating_sub(p.half as usize);
    history[lo..].iter().filter(|q| q.key() == p.key()).count() + 1
}

pub fn check_engine_rep(c: &RepCase, ctx: &mut Ctx) -> Result<(), String> {
    if c.searchmove.is_empty() {
        ctx.class("no_shuffle_available");
        return Ok(());
    }
    let g = gen::Game { start: c.fen.clone(), moves: c.history.clone() }.to_gamep()?;
    let root = root_of(&c.fen, &c.history)?;
    let m = Mv::parse(&c.searchmove).filter(|m| root.is_legal(*m)).ok_or_else(|| format!("{HARNESS_PREFIX} searchmove illegal"))?;
    let child = root.apply(m);
    let k = contempt();
    // expected score(s) from the root side's point of view
    let mut line: Vec<Pos> = g.positions.clone();
    let expected: Vec<i32>;
    let mut draw_involved = false;
    let mut ordinary_differs = false;
    if c.depth == 1 {
        let occ = occurrences(&line, &child);
        if child.legal_moves().is_empty() {
            ctx.class("terminal_child");
            return Ok(());
        }
        if occ < 3 && child.half >= 100 {
            // (whether such a position is ALSO valued as a fifty-move draw is not asserted: the property only says "never earlier")
            ctx.class("not_asserted_clock_ge_100_without_third_occurrence");
            return Ok(());
        }
        let ordinary = -leaf_value(&child);
        if occ >= 3 {
            if child.half >= 100 {
                ctx.class("third_occurrence_with_clock_ge_100");
            }
            expected = vec![k, -k];
            draw_involved = true;
            ordinary_differs = ordinary != k && ordinary != -k;
        } else {
            expected = vec![ordinary];
        }
    } else {
        line.push(child.clone());
        let replies = child.legal_moves();
        if replies.is_empty() {
            ctx.class("terminal_child");
            return Ok(());
        }
        // opponent minimises the root side's value; a third occurrence is worth +-contempt to the root side
        let mut best = [i32::MAX, i32::MAX];
        let mut best_plain = i32::MAX;
        for r in replies {
            let gc = child.apply(r);
            let occ = occurrences(&line, &gc);
            let plain = if gc.legal_moves().is_empty() { if gc.in_check(gc.turn) { -(refsearch::WIN - gc.full as i32) } else { 0 } } else { leaf_value(&gc) };
            best_plain = best_plain.min(plain);
            for (i, d) in [k, -k].iter().enumerate() {
                let v = if occ >= 3 {
                    draw_involved = true;
                    *d
                } else {
                    plain
                };
                best[i] = best[i].min(v);
            }
        }
        expected = best.to_vec();
        ordinary_differs = !expected.contains(&best_plain);
    }
    let mut s = Session::new();
    if let Some((pf, pm)) = &c.prior {
        run_search(&mut s, pf, pm, &GoSpec::depth(1))?;
        if c.new_game_after_prior {
            s.new_game();
        }
        ctx.class("earlier_game_on_the_same_instance");
    }
    if c.newgame_first {
        s.new_game();
        ctx.class("ucinewgame_then_position_then_go");
    }
    let spec = GoSpec { depth: Some(c.depth as u64), searchmoves: vec![c.searchmove.clone()], ..GoSpec::default() };
    let out = run_search(&mut s, &c.fen, &c.history, &spec)?;
    s.quit()?;
    let info = out.last_scored().ok_or_else(|| format!("no scored info for {c:?}"))?;
    let got = score_text(&info.score.unwrap());
    let root_b = eng::board_from_pos(&root);
    let want: Vec<String> = expected.iter().map(|v| refsearch::score_text(*v, &root_b)).collect();
    if !want.contains(&got) {
        return Err(format!("position fen {} moves {:?}, go depth {} searchmoves {}: engine score {got}, expected {} ({})", c.fen, c.history, c.depth, c.searchmove, want.join(" or "), if draw_involved { "a third occurrence is reachable: draw score up to the contempt offset" } else { "no third occurrence: ordinary value" }));
    }
    ctx.class(match (c.depth, draw_involved) {
        (1, true) => "depth1_third_occurrence",
        (1, false) => "depth1_second_occurrence",
        (_, true) => "depth2_third_occurrence_reachable",
        (_, false) => "depth2_no_third_occurrence",
    });
    if c.history.first().map_or(false, |m| Mv::parse(m).map_or(false, |m| g.positions[0].is_capture(m) || matches!(g.positions[0].board[m.from as usize], Some((_, Kind::Pawn))))) {
        ctx.class("first_occurrence_created_by_an_irreversible_move");
    }
    if draw_involved && ordinary_differs {
        ctx.class("draw_value_differs_from_material_value");
        ctx.nontrivial((c.fen.clone(), c.history.clone(), c.searchmove.clone(), c.depth));
    } else if !draw_involved && c.history.len() >= 2 {
        ctx.nontrivial((c.fen.clone(), c.history.clone(), c.searchmove.clone(), c.depth, "negative"));
    }
    ctx.sample(|| serde_json::json!({"fen": c.fen, "history": c.history, "searchmove": c.searchmove, "depth": c.depth, "score": got}));
    Ok(())
}

// ------------------------------------------------------------------------------------------------
// (c) fifty-move threshold

#[derive(Debug, Clone, Serialize, Deserialize)]
pub struct FiftyCase {
    pub fen: String,
    pub depth: u32,
    /// the same placement is searched first with this half-move clock on the same instance (what an engine
    /// remembers about a placement must not carry the fifty-move verdict over to another clock)
    #[serde(default)]
    pub warm_clock: Option<u64>,
}

fn fifty_case(r: &gen::RawPos, h: u32, d: u32) -> FiftyCase {
    let mut p = gen::position(r, ClockDomain::EngineQuiet);
    p.ep = None;
    p.half = h as u64;
    p.full = p.full.max(h as u64 / 2 + 1);
    let warm_clock = match (h / 3 + d) % 4 {
        0 => Some(96 + (h as u64 % 4)),
        1 => Some(100 + (h as u64 % 20)),
        _ => None,
    };
    FiftyCase { fen: p.fen(), depth: d, warm_clock }
}

pub fn check_fifty(c: &FiftyCase, ctx: &mut Ctx) -> Result<(), String> {
    let p = Pos::from_fen(&c.fen).ok_or_else(|| format!("{HARNESS_PREFIX} bad fen {}", c.fen))?;
    if p.legal_moves().is_empty() {
        ctx.class("terminal_root");
        return Ok(());
    }
    let mut s = Session::new();
    if let Some(w) = c.warm_clock {
        let mut q = p.clone();
        q.half = w;
        q.full = q.full.max(w / 2 + 1);
        run_search(&mut s, &q.fen(), &[], &GoSpec::depth(1 + (w % 3)))?;
        ctx.class("same_placement_searched_with_clock_near_100_before");
    }
    let out = run_search(&mut s, &c.fen, &[], &GoSpec::depth(c.depth as u64))?;
    s.quit()?;
    let info = out.last_scored().ok_or_else(|| format!("no scored info for {c:?}"))?;
    let got = score_text(&info.score.unwrap());
    if p.half + (c.depth as u64) < 100 {
        // no position in the tree has reached 100 plies: every one must carry its ordinary value
        let mut q = p.clone();
        q.half = 0;
        let mut b = eng::board_from_pos(&q);
        let (v, _) = refsearch::root_value(&mut b, c.depth);
        let want = refsearch::score_text(v, &b);
        if got != want {
            return Err(format!("{} depth {}{}: engine score {got}, but with only {} plies since the last capture or pawn move no position in the tree is a fifty-move draw and the value is {want}", c.fen, c.depth, c.warm_clock.map_or(String::new(), |w| format!(" (after a search of the same placement with half-move clock {w} on the same instance)")), p.half + c.depth as u64));
        }
        ctx.class(if p.half >= 50 { "clock_50_to_99_ordinary_value" } else { "clock_below_50" });
        if p.half >= 50 - c.depth as u64 && v != 0 {
            ctx.nontrivial((p.fen4(), p.half, c.depth));
        }
    } else {
        ctx.class(if got == "cp 0" { "clock_ge_100_scored_draw" } else { "clock_ge_100_scored_otherwise" });
    }
    ctx.sample(|| serde_json::json!({"fen": c.fen, "depth": c.depth, "score": got}));
    Ok(())
}

// ------------------------------------------------------------------------------------------------
// (b') a repetition that the side to move can force inside a deeper search

#[derive(Debug, Clone, Serialize, Deserialize)]
pub struct ForcedCase {
    pub fen: String,
    /// the forced cycle c1 r1 c2 r2 (empty when the generated position has none)
    pub cycle: Vec<String>,
    pub depth: u32,
}

fn forced_cycle(p: &Pos) -> Option<[Mv; 4]> {
    for c1 in p.legal_moves() {
        let p1 = p.apply(c1);
        if !p1.in_check(p1.turn) {
            continue;
        }
        let r = p1.legal_moves();
        if r.len() != 1 {
            continue;
        }
        let p2 = p1.apply(r[0]);
        for c2 in p2.legal_moves() {
            let p3 = p2.apply(c2);
            if !p3.in_check(p3.turn) {
                continue;
            }
            let r2 = p3.legal_moves();
            if r2.len() != 1 {
                continue;
            }
            if p3.apply(r2[0]).key() == p.key() && p3.apply(r2[0]).half >= 4 {
                return Some([c1, r[0], c2, r2[0]]);
            }
        }
    }
    None
}

/// perpetual-check skeleton (queen shuttling e8 <-> h5 against Kg8 / pawn g7) plus generated material for
/// the defender; mirrored / colour-flipped by the generated bits. Validity is decided by `forced_cycle`.
fn perpetual_template(r: &gen::RawSynth) -> Option<Pos> {
    use crate::refmodel::{sq, Color};
    let mut p = Pos::empty();
    let mirror = r.rights & 1 != 0;
    let f = |file: i32| if mirror { 7 - file } else { file };
    p.board[sq(f(6), 7) as usize] = Some((Color::Black, Kind::King));
    p.board[sq(f(6), 6) as usize] = Some((Color::Black, Kind::Pawn));
    p.board[sq(f(7), 4) as usize] = Some((Color::White, Kind::Queen));
    let wk = sq((r.wk % 8) as i32, (r.wk / 8 % 2) as i32);
    if p.board[wk as usize].is_some() {
        return None;
    }
    p.board[wk as usize] = Some((Color::White, Kind::King));
    for &(k, c, s) in r.pieces.iter().take(2 + (r.bk % 5) as usize) {
        let kind = [Kind::Queen, Kind::Rook, Kind::Rook, Kind::Bishop, Kind::Knight, Kind::Pawn, Kind::Pawn][(k % 7) as usize];
        let mut s = (s % 64) as usize;
        if kind == Kind::Pawn {
            s = 8 + s % 48;
        }
        if p.board[s].is_some() {
            continue;
        }
        // mostly defender material; now and then a pawn for the attacker
        let color = if c % 5 == 0 && kind == Kind::Pawn { Color::White } else { Color::Black };
        p.board[s] = Some((color, kind));
    }
    p.turn = Color::White;
    p.half = 10 + (r.half.1 % 30) as u64;
    p.full = 20 + (r.full.1 % 200) as u64;
    if !p.is_sane() {
        return None;
    }
    Some(if r.flip { p.flip() } else { p })
}

fn forced_case(r: &gen::RawPos, depth: u32) -> ForcedCase {
    if let gen::RawPos::Synth(rs) = r {
        if let Some(q) = perpetual_template(rs) {
            if let Some(c) = forced_cycle(&q) {
                return ForcedCase { fen: q.fen(), cycle: c.iter().map(Mv::uci).collect(), depth };
            }
        }
    }
    let mut p = gen::position(r, ClockDomain::EngineQuiet);
    p.ep = None;
    p.castle = [false; 4];
    // look at the position itself and at what a few plies of play reach
    let mut cands = vec![p.clone()];
    for m in p.legal_moves().into_iter().take(12) {
        cands.push(p.apply(m));
    }
    for q in cands {
        if let Some(c) = forced_cycle(&q) {
            return ForcedCase { fen: q.fen(), cycle: c.iter().map(Mv::uci).collect(), depth };
        }
    }
    ForcedCase { fen: p.fen(), cycle: vec![], depth }
}

pub fn check_forced(c: &ForcedCase, ctx: &mut Ctx) -> Result<(), String> {
    if c.cycle.is_empty() {
        ctx.class("no_forced_cycle_in_this_position");
        return Ok(());
    }
    let p = Pos::from_fen(&c.fen).ok_or_else(|| format!("{HARNESS_PREFIX} bad fen {}", c.fen))?;
    // validate the cycle independently of the generator
    let g = gen::Game { start: c.fen.clone(), moves: c.cycle.clone() }.to_gamep()?;
    if g.last().key() != p.key() || g.positions[1].legal_moves().len() != 1 || g.positions[3].legal_moves().len() != 1 {
        return Err(format!("{HARNESS_PREFIX} stored cycle is not a forced cycle"));
    }
    let k = contempt();
    let mut s = Session::new();
    let out = run_search(&mut s, &c.fen, &c.cycle, &GoSpec::depth(c.depth as u64))?;
    s.quit()?;
    let info = out.last_scored().ok_or_else(|| format!("no scored info for {c:?}"))?;
    let static_v = {
        let b = eng::board_from_pos(&p);
        refsearch::stand_pat(&b)
    };
    match info.score.unwrap() {
        inkayaku_uci::Score::Centipawn { score } | inkayaku_uci::Score::CentipawnBounded { score, .. } => {
            if score < -k {
                return Err(format!("position fen {} moves {:?}, go depth {}: the side to move can force the position to occur a third time ({:?} again, every reply forced) but the search reports cp {score}, below the draw score", c.fen, c.cycle, c.depth, c.cycle));
            }
        }
        inkayaku_uci::Score::Mate { mate_in } => {
            if mate_in < 0 {
                return Err(format!("position fen {} moves {:?}, go depth {}: a forced repetition is available but the search reports mate {mate_in}", c.fen, c.cycle, c.depth));
            }
        }
    }
    ctx.class("forced_cycle");
    if static_v < -k - 100 {
        ctx.class("forced_cycle_while_materially_lost");
        ctx.nontrivial((c.fen.clone(), c.depth));
    }
    ctx.sample(|| serde_json::json!({"fen": c.fen, "cycle": c.cycle, "depth": c.depth, "static_eval_for_mover": static_v}));
    Ok(())
}

pub fn shuffle_quad_pub(p: &Pos, skip: u16) -> Option<[Mv; 4]> {
    shuffle_quad(p, skip)
}

// ------------------------------------------------------------------------------------------------
// (f) repetitions at every ply of deeper searches: exact values with the transposition cache disabled (hook)

fn deep_rep_case(r: &gen::RawPos, depth: u32, x: u16) -> crate::props::c08::DeepCase {
    // perpetual-check skeletons (a forced cycle exists), else any position with a take-back shuffle
    let mut base: Option<(Pos, [Mv; 4])> = None;
    if let gen::RawPos::Synth(rs) = r {
        if let Some(q) = perpetual_template(rs) {
            if let Some(c) = forced_cycle(&q) {
                base = Some((q, c));
            }
        }
    }
    if base.is_none() {
        let mut p = gen::position(r, ClockDomain::EngineQuiet);
        p.ep = None;
        p.half = p.half.min(30);
        if let Some(c) = forced_cycle(&p) {
            base = Some((p, c));
        } else if let Some(c) = shuffle_quad(&p, x / 7) {
            base = Some((p, c));
        } else {
            return crate::props::c08::DeepCase { fen: p.fen(), history: vec![], depth: depth.min(5) };
        }
    }
    let (p, cyc) = base.unwrap();
    // how much of the cycle has already been played: 0 plies (the root is a first occurrence; only the line itself
    // can repeat), a partial cycle, one whole cycle (the root is a second occurrence), one and a half, two cycles
    let plies = [0usize, 1, 2, 3, 4, 5, 6, 7, 8][(x % 9) as usize];
    let history: Vec<String> = (0..plies).map(|i| cyc[i % 4].uci()).collect();
    crate::props::c08::DeepCase { fen: p.fen(), history, depth }
}

/// a perpetual-check skeleton with a forced four-ply cycle (for session generators)
pub fn perpetual_root(rs: &gen::RawSynth) -> Option<(Pos, [Mv; 4])> {
    let q = perpetual_template(rs)?;
    let c = forced_cycle(&q)?;
    Some((q, c))
}
