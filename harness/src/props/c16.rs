//! C16 — the engine's output stream is well-formed and self-consistent.

use proptest::prelude::*;
use serde::{Deserialize, Serialize};

use crate::engsess::{BinSession, GoSpec, TextSession, Wait};
use crate::props::c07::{build_go, build_root, cycle_strategy, go_class, root_of, RawCycle};
use crate::gen;
use crate::refmodel::{Mv, Pos};
use crate::run::{replay_case, run_part, Ctx, Part, Property, HARNESS_PREFIX};

pub fn property() -> Property {
    Property {
        id: "C16",
        level: "exploration",
        rule: "whole sessions (uci, isready, debug on/off, register, ucinewgame, position, go with the C07 limit mix incl. stop; games continued with the engine's own bestmove and the opponent's reply, preferably the announced ponder move) against the REAL binary over pipes (quick: 64) and in-process with the console transmitter (same text lines, for volume); oracle: every line after the banner matches an independent grammar of engine-to-GUI messages (id, uciok, readyok, bestmove m [ponder m], info with typed key/value pairs, registration, copyprotection, option); per search depth / nodes / time never decrease over the info lines carrying them, every pv is a legal line in the reference model from the searched position, bestmove / ponder are the first / second move of the last pv reported in that search (no pv => 0000 without ponder; one-move pv => no ponder). Non-trivial = distinct session with >= 2 searches on different roots, or a stop, or a root without legal moves after a normal search",
        assumptions: &["sessions never send setoption (todo!() in Engine::accept; the engine advertises no options)", "wall-clock 'time' is read from the engine's own output only (monotonicity), never compared with the harness's clock"],
        parts: vec![
            Part {
                name: "binary_sessions",
                quick: 64,
                thorough: 2_000,
                single_shard: false, supplementary: false,
                run: |cfg| run_part(cfg, session_strategy(), |r| build(r, true), check_session),
                replay: |v| replay_case::<TextSessionCase, _>(v, check_session),
            },
            Part {
                // perpetual-check skeletons with two cycles of history: the best line of a deeper iteration is often the single
                // move that completes a third occurrence, where a shallower iteration had a longer (greedier) line
                name: "perpetual_check_roots",
                quick: 1_600,
                thorough: 40_000,
                single_shard: false, supplementary: false,
                run: |cfg| run_part(cfg, (gen::raw_synth_profiles(0, 9), 2..=5u64, 0..3u8), |(rs, d, cut)| perpetual_case(rs, *d, *cut), check_session),
                replay: |v| replay_case::<TextSessionCase, _>(v, check_session),
            },
            Part {
                name: "inprocess_sessions",
                quick: 480,
                thorough: 20_000,
                single_shard: false, supplementary: false,
                run: |cfg| run_part(cfg, session_strategy(), |r| build(r, false), check_session),
                replay: |v| replay_case::<TextSessionCase, _>(v, check_session),
            },
        ],
    }
}

#[derive(Debug, Clone, Serialize, Deserialize)]
pub enum TStep {
    Line(String),
    /// a line that is answered by exactly one line starting with the given word
    Ask(String, String),
    Position { fen: String, moves: Vec<String> },
    Go(GoSpec),
    /// the game goes on: the last `position` is repeated with the engine's own last bestmove and the opponent's
    /// reply appended (the announced ponder move if `follow_ponder` and there is one, else the reply picked by `choice`)
    Continue { choice: u16, follow_ponder: bool },
}

#[derive(Debug, Clone, Serialize, Deserialize)]
pub struct TextSessionCase {
    pub steps: Vec<TStep>,
    pub binary: bool,
}

fn perpetual_case(rs: &gen::RawSynth, depth: u64, cut: u8) -> TextSessionCase {
    let mut steps = vec![TStep::Ask("isready".into(), "readyok".into())];
    // (a skeleton is only usable when the forced cycle exists: vary the generated one a little until it is)
    let found = (0..12u8).find_map(|k| {
        let mut v = rs.clone();
        v.wk = v.wk.wrapping_add(k.wrapping_mul(5));
        let n = v.pieces.len().max(1);
        v.pieces.rotate_left(k as usize % n);
        crate::props::c10::perpetual_root(&v)
    });
    if let Some((q, cyc)) = found {
        // 8 plies = the root has occurred three times and the checking move completes a third occurrence of the next
        // position; 6 / 4 plies = the same one / two moves earlier in the game
        let plies = [8usize, 6, 4][cut as usize % 3];
        let moves: Vec<String> = (0..plies).map(|i| cyc[i % 4].uci()).collect();
        steps.push(TStep::Position { fen: q.fen(), moves });
        steps.push(TStep::Go(GoSpec::depth(depth)));
    }
    TextSessionCase { steps, binary: false }
}

fn session_strategy() -> impl Strategy<Value = (Vec<RawCycle>, Vec<u8>)> {
    (proptest::collection::vec(cycle_strategy(), 1..=5), proptest::collection::vec(0..12u8, 6))
}

fn build(r: &(Vec<RawCycle>, Vec<u8>), binary: bool) -> TextSessionCase {
    let (cycles, extras) = r;
    let mut steps = Vec::new();
    let mut prev: Option<(String, Vec<String>, Pos)> = None;
    if extras[0] % 2 == 0 {
        steps.push(TStep::Ask("uci".into(), "uciok".into()));
    }
    for (i, c) in cycles.iter().enumerate() {
        match extras[i % extras.len()] {
            0 => steps.push(TStep::Ask("isready".into(), "readyok".into())),
            1 => steps.push(TStep::Line("debug on".into())),
            2 => steps.push(TStep::Line("debug off".into())),
            3 => steps.push(TStep::Line("register later".into())),
            4 => steps.push(TStep::Ask("register name Stefan MK code 4359874324".into(), "registration ok".into())),
            5 => steps.push(TStep::Line("stop".into())),
            6 => steps.push(TStep::Line("ponderhit".into())),
            _ => {}
        }
        if c.new_game {
            steps.push(TStep::Line("ucinewgame".into()));
        }
        let root = match (&prev, c.reuse) {
            (Some((f, m, p)), 0) => {
                steps.push(TStep::Position { fen: f.clone(), moves: m.clone() });
                p.clone()
            }
            (Some((_, _, p)), 1) => p.clone(),
            _ => {
                let (fen, moves, root, _) = build_root(c);
                steps.push(TStep::Position { fen: fen.clone(), moves: moves.clone() });
                prev = Some((fen, moves, root.clone()));
                root
            }
        };
        let mut g = build_go(c, &root);
        if binary && extras[(i + 1) % extras.len()] < 5 {
            // the GUI keeps asking `isready` while the engine thinks (two threads write to one stdout)
            g.pings = 8 + (c.b % 40) as u8;
        }
        if g.stop_after_ms.map_or(false, |ms| ms >= 80) && extras[(i + 2) % extras.len()] % 2 == 0 {
            g.midsearch_line = Some(["ucinewgame", "debug on", "debug off", "ucinewgame"][(c.b / 64 % 4) as usize].to_string());
        }
        steps.push(TStep::Go(g));
        // now and then a search that runs for more than a second (time fields beyond 999 ms, many poll reports)
        if i == 0 && extras[5] == 11 {
            steps.push(TStep::Go(GoSpec { movetime: Some(1_050 + (c.a % 700) as u64), ..GoSpec::default() }));
        }
        // the game goes on from there (the root is only known at run time: limits that need no root)
        let turns = match extras[(i + 3) % extras.len()] {
            0..=2 => 3,
            3..=5 => 1,
            _ => 0,
        };
        for t in 0..turns {
            let x = c.a.rotate_left(7 * t + 3);
            steps.push(TStep::Continue { choice: (x >> 8) as u16, follow_ponder: x % 4 != 0 });
            let g = match x % 5 {
                0 => GoSpec::depth(1),
                1 => GoSpec::depth(2),
                2 => GoSpec::depth(3),
                3 => GoSpec { movetime: Some((x >> 24) as u64 % 25), ..GoSpec::default() },
                _ => GoSpec { wtime: Some(1500), btime: Some(1500), winc: Some(30), binc: Some(30), ..GoSpec::default() },
            };
            steps.push(TStep::Go(g));
        }
        if turns > 0 {
            // the static root bookkeeping of this generator ends here
            prev = None;
        }
    }
    TextSessionCase { steps, binary }
}

// ------------------------------------------------------------------------------------------------
// grammar of engine-to-GUI lines

#[derive(Debug, Default, Clone)]
pub struct InfoLine {
    pub depth: Option<u64>,
    pub nodes: Option<u64>,
    pub time: Option<u64>,
    pub pv: Option<Vec<String>>,
    pub score: Option<String>,
}

#[derive(Debug, Clone)]
pub enum OutLine {
    Id,
    UciOk,
    ReadyOk,
    BestMove { best: Option<String>, ponder: Option<String> },
    Info(InfoLine),
    Protection,
    OptionLine,
}

fn is_move(t: &str) -> bool {
    let b = t.as_bytes();
    (b.len() == 4 || b.len() == 5) && (b'a'..=b'h').contains(&b[0]) && (b'1'..=b'8').contains(&b[1]) && (b'a'..=b'h').contains(&b[2]) && (b'1'..=b'8').contains(&b[3]) && (b.len() == 4 || b"qrbn".contains(&b[4]))
}

fn uint(t: Option<&&str>) -> Result<u64, String> {
    let t = t.ok_or("missing number")?;
    if t.is_empty() || !t.bytes().all(|c| c.is_ascii_digit()) {
        return Err(format!("{t:?} is not an unsigned integer"));
    }
    t.parse::<u64>().map_err(|e| format!("{t:?}: {e}"))
}

fn sint(t: Option<&&str>) -> Result<i64, String> {
    let t = t.ok_or("missing number")?;
    let d = t.strip_prefix('-').unwrap_or(t);
    if d.is_empty() || !d.bytes().all(|c| c.is_ascii_digit()) {
        return Err(format!("{t:?} is not an integer"));
    }
    t.parse::<i64>().map_err(|e| format!("{t:?}: {e}"))
}

const INFO_KEYS: [&str; 17] = ["depth", "seldepth", "time", "nodes", "pv", "multipv", "score", "currmove", "currmovenumber", "hashfull", "nps", "tbhits", "sbhits", "cpuload", "string", "refutation", "currline"];

pub fn parse_line(line: &str) -> Result<OutLine, String> {
    if line != line.trim() || line.contains("  ") && !line.starts_with("info") && !line.starts_with("id ") {
        return Err("stray white space".into());
    }
    let t: Vec<&str> = line.split(' ').collect();
    match t[0] {
        "id" => {
            if t.len() >= 3 && (t[1] == "name" || t[1] == "author") && !t[2].is_empty() {
                Ok(OutLine::Id)
            } else {
                Err("id must be `id name <x>` or `id author <x>`".into())
            }
        }
        "uciok" if t.len() == 1 => Ok(OutLine::UciOk),
        "readyok" if t.len() == 1 => Ok(OutLine::ReadyOk),
        "bestmove" => {
            let best = t.get(1).ok_or("bestmove without move")?;
            if *best != "0000" && !is_move(best) {
                return Err(format!("bestmove operand {best:?} is not a move"));
            }
            let ponder = match t.len() {
                2 => None,
                4 if t[2] == "ponder" && is_move(t[3]) => Some(t[3].to_string()),
                _ => return Err("bestmove must be `bestmove <move> [ponder <move>]`".into()),
            };
            Ok(OutLine::BestMove { best: if *best == "0000" { None } else { Some(best.to_string()) }, ponder })
        }
        "copyprotection" | "registration" => {
            if t.len() == 2 && ["checking", "ok", "error"].contains(&t[1]) {
                Ok(OutLine::Protection)
            } else {
                Err("must be followed by checking | ok | error".into())
            }
        }
        "option" => {
            if t.len() >= 5 && t[1] == "name" && t.contains(&"type") {
                Ok(OutLine::OptionLine)
            } else {
                Err("option must be `option name <n> type <t> ...`".into())
            }
        }
        "info" => {
            let mut info = InfoLine::default();
            let mut i = 1;
            if t.len() == 1 {
                return Ok(OutLine::Info(info));
            }
            while i < t.len() {
                let key = t[i];
                i += 1;
                match key {
                    "depth" => {
                        info.depth = Some(uint(t.get(i))?);
                        i += 1;
                    }
                    "nodes" => {
                        info.nodes = Some(uint(t.get(i))?);
                        i += 1;
                    }
                    "time" => {
                        info.time = Some(uint(t.get(i))?);
                        i += 1;
                    }
                    "seldepth" | "multipv" | "currmovenumber" | "hashfull" | "nps" | "tbhits" | "sbhits" | "cpuload" => {
                        uint(t.get(i)).map_err(|e| format!("{key}: {e}"))?;
                        i += 1;
                    }
                    "currmove" => {
                        if !t.get(i).map_or(false, |m| is_move(m)) {
                            return Err("currmove without a move".into());
                        }
                        i += 1;
                    }
                    "score" => {
                        match t.get(i).copied() {
                            Some("cp") | Some("mate") => {
                                let v = sint(t.get(i + 1)).map_err(|e| format!("score: {e}"))?;
                                info.score = Some(format!("{} {v}", t[i]));
                                i += 2;
                                if matches!(t.get(i).copied(), Some("lowerbound") | Some("upperbound")) {
                                    i += 1;
                                }
                            }
                            other => return Err(format!("score must be followed by cp or mate, found {other:?}")),
                        }
                    }
                    "pv" | "refutation" => {
                        let mut moves = Vec::new();
                        while i < t.len() && !INFO_KEYS.contains(&t[i]) {
                            if !is_move(t[i]) {
                                return Err(format!("{key} contains {:?}, which is not a move", t[i]));
                            }
                            moves.push(t[i].to_string());
                            i += 1;
                        }
                        if moves.is_empty() {
                            return Err(format!("{key} without moves"));
                        }
                        if key == "pv" {
                            info.pv = Some(moves);
                        }
                    }
                    "currline" => {
                        uint(t.get(i)).map_err(|e| format!("currline: {e}"))?;
                        i += 1;
                        while i < t.len() && !INFO_KEYS.contains(&t[i]) {
                            if !is_move(t[i]) {
                                return Err("currline contains a non-move".into());
                            }
                            i += 1;
                        }
                    }
                    "string" => {
                        // the rest of the line is free text
                        i = t.len();
                    }
                    other => return Err(format!("unknown info key {other:?}")),
                }
            }
            Ok(OutLine::Info(info))
        }
        other => Err(format!("{other:?} is not an engine-to-GUI message")),
    }
}

/// the lines of one search, from after `go` up to and including `bestmove`
pub fn judge_search(lines: &[String], root: &Pos, what: &str) -> Result<(), String> {
    let mut last_pv: Option<Vec<String>> = None;
    let (mut depth, mut nodes, mut time) = (None::<u64>, None::<u64>, None::<u64>);
    let mut best_seen = false;
    for l in lines {
        let parsed = parse_line(l).map_err(|e| format!("{what}: malformed output line {l:?}: {e}"))?;
        if best_seen {
            return Err(format!("{what}: output after bestmove within one search: {l:?}"));
        }
        match parsed {
            OutLine::Info(i) => {
                for (name, new, old) in [("depth", i.depth, &mut depth), ("nodes", i.nodes, &mut nodes), ("time", i.time, &mut time)] {
                    if let Some(v) = new {
                        if let Some(o) = *old {
                            if v < o {
                                return Err(format!("{what}: {name} decreases from {o} to {v} within one search (line {l:?})"));
                            }
                        }
                        *old = Some(v);
                    }
                }
                if let Some(pv) = i.pv {
                    let mut p = root.clone();
                    for (k, u) in pv.iter().enumerate() {
                        match Mv::parse(u).filter(|m| p.is_legal(*m)) {
                            Some(m) => p = p.apply(m),
                            None => return Err(format!("{what}: pv {pv:?} is not a legal line: move #{} ({u}) is illegal in {}", k + 1, p.fen())),
                        }
                    }
                    last_pv = Some(pv);
                }
            }
            OutLine::BestMove { best, ponder } => {
                best_seen = true;
                let want_best = last_pv.as_ref().and_then(|pv| pv.first().cloned());
                let want_ponder = last_pv.as_ref().and_then(|pv| pv.get(1).cloned());
                if best != want_best {
                    return Err(format!("{what}: bestmove {best:?} but the last reported pv of this search is {last_pv:?}"));
                }
                if ponder != want_ponder {
                    return Err(format!("{what}: ponder move {ponder:?} but the last reported pv of this search is {last_pv:?}"));
                }
            }
            OutLine::ReadyOk | OutLine::Protection | OutLine::Id | OutLine::UciOk | OutLine::OptionLine => {}
        }
    }
    if !best_seen {
        return Err(format!("{what}: no bestmove line"));
    }
    Ok(())
}

enum Chan {
    Text(TextSession),
    Bin(BinSession),
}

impl Chan {
    fn line(&mut self, l: &str) -> Result<(), String> {
        match self {
            Chan::Text(s) => s.line(l),
            Chan::Bin(s) => s.line(l),
        }
    }
    fn read_until(&mut self, w: &str) -> Result<Vec<String>, Wait> {
        match self {
            Chan::Text(s) => s.read_until(w),
            Chan::Bin(s) => s.read_until(w),
        }
    }
}

pub fn check_session(case: &TextSessionCase, ctx: &mut Ctx) -> Result<(), String> {
    let mut ch = if case.binary { Chan::Bin(BinSession::new()?) } else { Chan::Text(TextSession::new()) };
    let mut root = Pos::start();
    let mut trace: Vec<String> = Vec::new();
    let mut roots: Vec<String> = Vec::new();
    let mut banner_skipped = !case.binary;
    let mut nt = false;
    let mut normal_search_done = false;
    // what the GUI knows of the game: the last position command and the engine's last answer
    let mut game: Option<(String, Vec<String>)> = None;
    let mut last_answer: Option<(String, Option<String>)> = None;
    let mut skip_next_go = false;
    // `isready` lines sent during searches whose `readyok` has not been seen yet
    let mut pending_readyok = 0usize;
    let wait_err = |w: Wait, trace: &Vec<String>| match w {
        Wait::ThreadDied(why, _) => format!("engine stopped answering: {why}; session {trace:?}"),
        _ => format!("{HARNESS_PREFIX} watchdog: engine silent for 90 s; session {trace:?}"),
    };
    for step in &case.steps {
        match step {
            TStep::Line(l) => {
                ch.line(l)?;
                trace.push(l.clone());
            }
            TStep::Ask(l, answer) => {
                ch.line(l)?;
                trace.push(l.clone());
                let mut lines = ch.read_until(answer).map_err(|w| wait_err(w, &trace))?;
                if !banner_skipped && !lines.is_empty() {
                    lines.remove(0);
                    banner_skipped = true;
                }
                for x in &lines {
                    parse_line(x).map_err(|e| format!("after {l:?}: malformed output line {x:?}: {e}"))?;
                }
                if l == "uci" {
                    let names = lines.iter().filter(|x| x.starts_with("id name ")).count();
                    let authors = lines.iter().filter(|x| x.starts_with("id author ")).count();
                    if names != 1 || authors != 1 || lines.last().map(String::as_str) != Some("uciok") {
                        return Err(format!("answer to `uci` must be id name, id author, [options], uciok; got {lines:?}"));
                    }
                }
            }
            TStep::Continue { choice, follow_ponder } => {
                skip_next_go = true;
                let (Some((fen, moves)), Some((best, ponder))) = (game.clone(), last_answer.take()) else { continue };
                let Some(bm) = Mv::parse(&best).filter(|m| root.legal_moves().contains(m)) else { continue };
                let after = root.apply(bm);
                let replies = after.legal_moves();
                if replies.is_empty() || after.half >= 88 {
                    continue;
                }
                let announced = ponder.and_then(|p| Mv::parse(&p)).filter(|m| replies.contains(m));
                let reply = match (follow_ponder, announced) {
                    (true, Some(m)) => {
                        ctx.class("opponent_followed_the_ponder_move");
                        nt = true;
                        m
                    }
                    _ => replies[gen::pick(*choice as u32, 16, replies.len())],
                };
                let mut moves = moves;
                moves.push(bm.uci());
                moves.push(reply.uci());
                root = after.apply(reply);
                if root.legal_moves().is_empty() {
                    continue;
                }
                let l = format!("position fen {fen} moves {}", moves.join(" "));
                ch.line(&l)?;
                trace.push(l);
                game = Some((fen, moves));
                skip_next_go = false;
                ctx.class("game_continued");
            }
            TStep::Position { fen, moves } => {
                game = Some((fen.clone(), moves.clone()));
                last_answer = None;
                root = root_of(fen, moves)?;
                let mut l = format!("position fen {fen}");
                if !moves.is_empty() {
                    l.push_str(" moves ");
                    l.push_str(&moves.join(" "));
                }
                ch.line(&l)?;
                trace.push(l);
                if !roots.contains(&root.fen4()) {
                    roots.push(root.fen4());
                }
            }
            TStep::Go(_) if skip_next_go => {
                skip_next_go = false;
            }
            TStep::Go(g) => {
                let l = g.to_line();
                ch.line(&l)?;
                trace.push(l.clone());
                let mut pinged = 0;
                for _ in 0..g.pings {
                    ch.line("isready")?;
                    pinged += 1;
                }
                if pinged > 0 {
                    trace.push(format!("({pinged} x isready while the search runs)"));
                    ctx.class("isready_during_search");
                    pending_readyok += pinged as usize;
                }
                if let Some(ms) = g.ponderhit_after_ms {
                    std::thread::sleep(std::time::Duration::from_millis(ms));
                    ch.line("ponderhit")?;
                    trace.push(format!("(after {ms} ms) ponderhit"));
                    ctx.class("go_ponder_then_ponderhit");
                }
                if let Some(ms) = g.stop_after_ms {
                    if let Some(mid) = &g.midsearch_line {
                        std::thread::sleep(std::time::Duration::from_millis(ms / 3));
                        ch.line(mid)?;
                        trace.push(format!("(after {} ms) {mid}", ms / 3));
                        ctx.class("command_line_in_the_middle_of_a_search");
                        std::thread::sleep(std::time::Duration::from_millis(ms - ms / 3));
                    } else {
                        std::thread::sleep(std::time::Duration::from_millis(ms));
                    }
                    ch.line("stop")?;
                    nt = true;
                } else if g.is_unbounded() {
                    std::thread::sleep(std::time::Duration::from_millis(30));
                    ch.line("stop")?;
                    nt = true;
                }
                let mut lines = match ch.read_until("bestmove") {
                    Ok(l) => l,
                    Err(Wait::ThreadDied(_, d)) if crate::engsess::is_k1_depth_form(crate::props::c07::root_ply(&root), d) => {
                        ctx.known.insert(crate::engsess::K1_DEPTH_FORM.to_string());
                        ctx.class("k1_depth_form_met");
                        return Ok(());
                    }
                    Err(w) => return Err(wait_err(w, &trace)),
                };
                if !banner_skipped && !lines.is_empty() {
                    lines.remove(0);
                    banner_skipped = true;
                }
                judge_search(&lines, &root, &format!("root {} `{l}`", root.fen())).map_err(|e| format!("{e}; session {trace:?}"))?;
                pending_readyok = pending_readyok.saturating_sub(lines.iter().filter(|x| x.as_str() == "readyok").count());
                last_answer = lines.iter().rev().find_map(|x| match parse_line(x) {
                    Ok(OutLine::BestMove { best: Some(b), ponder }) => Some((b, ponder)),
                    _ => None,
                });
                ctx.evals(1);
                ctx.class(go_class(g));
                if g.movetime.map_or(false, |m| m > 1000) {
                    ctx.class("search_longer_than_one_second");
                }
                if root.legal_moves().is_empty() {
                    ctx.class("root_without_legal_moves");
                    if normal_search_done {
                        ctx.class("terminal_root_after_normal_search");
                        nt = true;
                    }
                } else {
                    normal_search_done = true;
                }
            }
        }
    }
    if roots.len() >= 2 {
        nt = true;
    }
    if pending_readyok > 0 {
        ctx.class("readyok_arrived_after_bestmove");
    }
    match ch {
        Chan::Text(mut s) => {
            std::thread::sleep(std::time::Duration::from_millis(5));
            let rest = s.drain();
            if rest.iter().any(|l| l.starts_with("bestmove")) {
                return Err(format!("bestmove line without a go: {rest:?}; session {trace:?}"));
            }
            for x in &rest {
                parse_line(x).map_err(|e| format!("malformed trailing output line {x:?}: {e}"))?;
            }
            s.quit().map_err(|e| format!("{e}; session {trace:?}"))?;
        }
        Chan::Bin(s) => {
            let mut rest = s.quit().map_err(|e| format!("{e}; session {trace:?}"))?;
            if !banner_skipped && !rest.is_empty() {
                rest.remove(0);
            }
            if rest.iter().any(|l| l.starts_with("bestmove")) {
                return Err(format!("bestmove line without a go: {rest:?}; session {trace:?}"));
            }
            for x in &rest {
                parse_line(x).map_err(|e| format!("malformed trailing output line {x:?}: {e}"))?;
            }
        }
    }
    ctx.class(if case.binary { "binary" } else { "in_process" });
    if nt {
        ctx.nontrivial(&trace);
    }
    ctx.sample(|| serde_json::json!({"binary": case.binary, "session": trace}));
    Ok(())
}
