//! C02 — playing a move produces exactly the successor position the rules define.

use serde::{Deserialize, Serialize};

use crate::eng;
use crate::gen::{self, ClockDomain, Game};
use crate::props::PosCase;
use crate::refmodel::{Kind, Mv, Pos, A1, A8, H1, H8};
use crate::run::{replay_case, run_part, Ctx, Part, Property};

pub fn property() -> Property {
    Property {
        id: "C02",
        level: "exploration",
        rule: "(a) games of up to 300 plies played on ONE engine board with make() only, from seed FENs re-based to half-move clocks up to 10^9 (incl. >= 2^18) and full-move numbers up to 4*10^9; (b) every legal move of generated positions, captures and promotions also with the move object the capture / promotion generator hands out; (c) games of up to 200 plies on one board on which the legal moves are generated (make + unmake of every candidate) before every move, clocks <= 4095. Oracle: Fen::from(&board).fen after make equals the FEN of the reference successor, compared field by field. Non-trivial = distinct (4-field FEN, move) where the move is castle / e.p. / promotion / double push / king or rook move with a right set / capture on a corner with the opponent's right set / clock >= 100 before the move",
        assumptions: &["reference successor function validated indirectly by published perft counts", "the move object is taken from the engine's own pseudo-legal list by UCI text (no unmake is executed on the board under test: unmake only restores clocks <= 4095, which is C03's stated domain)"],
        parts: vec![
            Part {
                name: "games",
                quick: 8_000,
                thorough: 300_000,
                single_shard: false, supplementary: false,
                run: |cfg| run_part(cfg, gen::raw_playout(300), |r| gen::play(r, ClockDomain::Board).to_game(), check_game),
                replay: |v| replay_case::<Game, _>(v, check_game),
            },
            Part {
                name: "games_with_lookahead",
                quick: 4_000,
                thorough: 180_000,
                single_shard: false, supplementary: false,
                run: |cfg| {
                    run_part(
                        cfg,
                        gen::raw_playout(200),
                        |r| {
                            // here the board IS unmade between moves: stay inside unmake's clock domain (<= 4095, see C03)
                            let mut start = gen::seed_position(r, ClockDomain::Unmake);
                            start.half = start.half.min(4095 - r.choices.len() as u64 - 1);
                            gen::play_from(start, &r.choices).to_game()
                        },
                        check_game_with_lookahead,
                    )
                },
                replay: |v| replay_case::<Game, _>(v, check_game_with_lookahead),
            },
            Part {
                name: "all_moves",
                quick: 60_000,
                thorough: 3_000_000,
                single_shard: false, supplementary: false,
                run: |cfg| run_part(cfg, gen::raw_pos(60), |r| PosCase { fen: gen::position(r, ClockDomain::Board).fen() }, check_all_moves),
                replay: |v| replay_case::<PosCase, _>(v, check_all_moves),
            },
        ],
    }
}

#[derive(Debug, Clone, Serialize, Deserialize)]
pub struct MoveCase {
    pub fen: String,
    pub mv: String,
}

fn fields_diff(got: &str, want: &str) -> String {
    let names = ["placement", "side", "castling", "en-passant", "half-move", "full-move"];
    let g: Vec<&str> = got.split(' ').collect();
    let w: Vec<&str> = want.split(' ').collect();
    let mut out = Vec::new();
    for i in 0..6 {
        let (a, b) = (g.get(i).copied().unwrap_or("<missing>"), w.get(i).copied().unwrap_or("<missing>"));
        if a != b {
            out.push(format!("{}: engine {a} / rules {b}", names[i]));
        }
    }
    out.join("; ")
}

pub fn special(p: &Pos, m: Mv) -> Option<&'static str> {
    let (us, kind) = p.board[m.from as usize]?;
    let our_rights = if us == crate::refmodel::Color::White { p.castle[0] || p.castle[1] } else { p.castle[2] || p.castle[3] };
    let their_rights = if us == crate::refmodel::Color::White { p.castle[2] || p.castle[3] } else { p.castle[0] || p.castle[1] };
    Some(if p.is_castle(m) {
        "castle"
    } else if p.is_ep(m) {
        "en_passant"
    } else if m.promo.is_some() && p.is_capture(m) {
        "promotion_capture"
    } else if m.promo.is_some() {
        "promotion"
    } else if kind == Kind::Pawn && (m.from as i32 - m.to as i32).abs() == 16 {
        "double_push"
    } else if our_rights && (kind == Kind::King || kind == Kind::Rook) {
        "king_or_rook_move_with_right"
    } else if their_rights && p.is_capture(m) && [A1, H1, A8, H8].contains(&m.to) {
        "corner_capture_with_opponent_right"
    } else if p.half >= 100 {
        "clock_ge_100"
    } else {
        return None;
    })
}

fn check_one(b: &mut inkayaku_board::Bitboard, p: &Pos, m: Mv, ctx: &mut Ctx) -> Result<(), String> {
    let mv = eng::find_pseudo(b, m).ok_or_else(|| format!("legal move {m} is not offered by the engine in {} (see C01)", p.fen()))?;
    let want = p.apply(m).fen();
    // the same move as the capture / promotion generator hands it out (the quiescence search plays THOSE objects)
    if p.is_capture(m) || m.promo.is_some() {
        let u = m.uci();
        if let Some(nq) = b.generate_pseudo_legal_non_quiescent_moves().into_iter().find(|x| x.to_uci_string() == u) {
            // (on a board of its own: taking the move back on `b` is C03's business and only restores clocks <= 4095)
            let mut c = eng::board_from_pos(p);
            c.make(nq);
            let got = eng::eng_fen(&c);
            if got != want {
                return Err(format!("after {m} in {} (move object taken from generate_pseudo_legal_non_quiescent_moves): {}", p.fen(), fields_diff(&got, &want)));
            }
            ctx.class("move_object_from_the_capture_generator");
        }
    }
    b.make(mv);
    let got = eng::eng_fen(b);
    if got != want {
        return Err(format!("after {m} in {}: {}", p.fen(), fields_diff(&got, &want)));
    }
    ctx.evals(1);
    if let Some(c) = special(p, m) {
        ctx.class(c);
        ctx.nontrivial((p.fen4(), m));
    }
    if p.half >= 128 {
        ctx.class("clock_ge_128");
    }
    if p.half >= 4096 {
        ctx.class("clock_ge_4096");
    }
    if p.full > 65_535 {
        ctx.class("fullmove_gt_65535");
    }
    Ok(())
}

pub fn check_game(case: &Game, ctx: &mut Ctx) -> Result<(), String> {
    let g = case.to_gamep()?;
    let mut b = eng::board_from_pos(&g.start);
    for (i, &m) in g.moves.iter().enumerate() {
        check_one(&mut b, &g.positions[i], m, ctx).map_err(|e| format!("ply {}: {e}", i + 1))?;
    }
    ctx.sample(|| serde_json::json!({"start": case.start, "plies": case.moves.len(), "first_moves": case.moves.iter().take(12).collect::<Vec<_>>()}));
    Ok(())
}

/// The way every real caller uses the board: legality filtering (make + unmake of every candidate) before each
/// move, all on one object. `make` must still produce the FIDE successor, read through the engine's FEN writer
/// and, independently of it, through the twelve piece bitboards.
pub fn check_game_with_lookahead(case: &Game, ctx: &mut Ctx) -> Result<(), String> {
    let g = case.to_gamep()?;
    let mut b = eng::board_from_pos(&g.start);
    for (i, &m) in g.moves.iter().enumerate() {
        let p = &g.positions[i];
        let n_legal = b.generate_legal_moves().len();
        if n_legal != p.legal_moves().len() {
            return Err(format!("ply {}: {n_legal} legal moves in {} instead of {} (see C01)", i + 1, p.fen(), p.legal_moves().len()));
        }
        check_one(&mut b, p, m, ctx).map_err(|e| format!("ply {} (board used for move generation before every move): {e}", i + 1))?;
        let want = g.positions[i + 1].fen();
        let raw = eng::snap(&b).fen;
        if raw != want {
            return Err(format!("ply {} (board used for move generation before every move): after {m} in {}: piece bitboards / fields give {raw}, rules give {want}", i + 1, p.fen()));
        }
    }
    if g.moves.len() >= 20 {
        ctx.class("lookahead_game_ge_20_plies");
    }
    ctx.sample(|| serde_json::json!({"start": case.start, "plies": case.moves.len(), "lookahead": true}));
    Ok(())
}

pub fn check_all_moves(case: &PosCase, ctx: &mut Ctx) -> Result<(), String> {
    let p = Pos::from_fen(&case.fen).ok_or_else(|| format!("HARNESS: bad case fen {}", case.fen))?;
    for m in p.legal_moves() {
        let mut b = eng::board_from_pos(&p);
        check_one(&mut b, &p, m, ctx)?;
    }
    ctx.sample(|| serde_json::json!({"fen": case.fen, "legal_moves": p.legal_moves().len()}));
    Ok(())
}
