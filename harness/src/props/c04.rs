//! C04 — precomputed attack tables equal ray/step attacks for every square and occupancy.

use inkayaku_board::verif as tables;
use proptest::prelude::*;
use serde::{Deserialize, Serialize};

use crate::run::{replay_case, run_exhaustive, run_part, Ctx, Part, PartCfg, PartOutcome, Property};

pub fn property() -> Property {
    Property {
        id: "C04",
        level: "exploration",
        rule: "complete enumeration: for each of the 64 squares every subset (carry-rippler) of (table mask UNION reference relevant-blocker mask) for rook and bishop = 102,400 + 5,248 configurations, plus all 4x64 leaper entries; each lookup's raw index is compared with the table length before the production get_unchecked lookup is executed, and the result with a ray walk to the first blocker (included). A generated part adds random full 64-bit occupancies to confirm that bits outside the mask are ignored. Non-trivial = every configuration with at least one blocker (distinct by square+occupancy)",
        assumptions: &["tables reached through the cfg(inkayaku_verif) accessors, which call the production lookup", "squares use the engine's own indexing (a8 = 0) on both sides; the oracle walks (file, row) coordinates"],
        parts: vec![
            Part { name: "rook_subsets", quick: 0, thorough: 0, single_shard: false, supplementary: false, run: |cfg| run_subsets(cfg, true), replay: |v| replay_case::<SliderCase, _>(v, check_slider) },
            Part { name: "bishop_subsets", quick: 0, thorough: 0, single_shard: false, supplementary: false, run: |cfg| run_subsets(cfg, false), replay: |v| replay_case::<SliderCase, _>(v, check_slider) },
            Part {
                name: "leapers",
                quick: 1,
                thorough: 1,
                single_shard: true, supplementary: false,
                run: |cfg| run_exhaustive(cfg, (0..4u8).flat_map(|t| (0..64u32).map(move |s| LeaperCase { table: t, square: s })), check_leaper),
                replay: |v| replay_case::<LeaperCase, _>(v, check_leaper),
            },
            Part {
                name: "random_occupancies",
                quick: 1_000_000,
                thorough: 40_000_000,
                single_shard: false, supplementary: true,
                run: |cfg| {
                    run_part(
                        cfg,
                        (any::<bool>(), 0..64u32, any::<u64>(), any::<u64>(), 0..4u8),
                        |&(rook, square, a, b, mode)| {
                            // dense, sparse and very sparse occupancies
                            let occupancy = match mode {
                                0 => a,
                                1 => a & b,
                                2 => a | b,
                                _ => a & b & a.rotate_left(17),
                            };
                            SliderCase { rook, square, occupancy }
                        },
                        check_slider,
                    )
                },
                replay: |v| replay_case::<SliderCase, _>(v, check_slider),
            },
        ],
    }
}

#[derive(Debug, Clone, Serialize, Deserialize)]
pub struct SliderCase {
    pub rook: bool,
    pub square: u32,
    pub occupancy: u64,
}

#[derive(Debug, Clone, Serialize, Deserialize)]
pub struct LeaperCase {
    /// 0 king, 1 knight, 2 white pawn, 3 black pawn
    pub table: u8,
    pub square: u32,
}

const ROOK_DIRS: [(i32, i32); 4] = [(1, 0), (-1, 0), (0, 1), (0, -1)];
const BISHOP_DIRS: [(i32, i32); 4] = [(1, 1), (1, -1), (-1, 1), (-1, -1)];

fn bit(file: i32, row: i32) -> u64 {
    1u64 << (row * 8 + file)
}

/// squares reached by sliding from `square` until the first blocker, blocker included
pub fn ray_attacks(rook: bool, square: u32, occupancy: u64) -> u64 {
    let (f0, r0) = ((square % 8) as i32, (square / 8) as i32);
    let mut out = 0u64;
    for (df, dr) in if rook { ROOK_DIRS } else { BISHOP_DIRS } {
        let (mut f, mut r) = (f0 + df, r0 + dr);
        while (0..8).contains(&f) && (0..8).contains(&r) {
            out |= bit(f, r);
            if occupancy & bit(f, r) != 0 {
                break;
            }
            f += df;
            r += dr;
        }
    }
    out
}

/// blockers that can matter: ray squares whose successor along the ray is still on the board
pub fn relevant_mask(rook: bool, square: u32) -> u64 {
    let (f0, r0) = ((square % 8) as i32, (square / 8) as i32);
    let mut out = 0u64;
    for (df, dr) in if rook { ROOK_DIRS } else { BISHOP_DIRS } {
        let (mut f, mut r) = (f0 + df, r0 + dr);
        while (0..8).contains(&(f + df)) && (0..8).contains(&(r + dr)) && (0..8).contains(&f) && (0..8).contains(&r) {
            out |= bit(f, r);
            f += df;
            r += dr;
        }
    }
    out
}

pub fn check_slider(c: &SliderCase, ctx: &mut Ctx) -> Result<(), String> {
    if c.square >= 64 {
        return Err("HARNESS: square out of range".into());
    }
    let name = if c.rook { "rook" } else { "bishop" };
    let (idx, len) = if c.rook { (tables::rook_index(c.square, c.occupancy), tables::rook_table_len(c.square)) } else { (tables::bishop_index(c.square, c.occupancy), tables::bishop_table_len(c.square)) };
    if idx >= len {
        return Err(format!("{name} lookup for square {} occupancy {:#018x} indexes entry {idx} of a table with {len} entries (out of range, undefined behaviour in the unchecked lookup)", c.square, c.occupancy));
    }
    let got = if c.rook { tables::rook_attacks(c.square, c.occupancy) } else { tables::bishop_attacks(c.square, c.occupancy) };
    let want = ray_attacks(c.rook, c.square, c.occupancy);
    if got != want {
        return Err(format!("{name} attacks for square {} occupancy {:#018x}: table {:#018x}, ray walk {:#018x}", c.square, c.occupancy, got, want));
    }
    if c.occupancy & relevant_mask(c.rook, c.square) != 0 {
        ctx.nontrivial((c.rook, c.square, c.occupancy));
    }
    ctx.sample(|| serde_json::json!({"piece": name, "square": c.square, "occupancy": format!("{:#018x}", c.occupancy), "attacks": format!("{:#018x}", got)}));
    Ok(())
}

fn run_subsets(cfg: &PartCfg, rook: bool) -> PartOutcome {
    let squares: Vec<u32> = (0..64u32).filter(|s| s % cfg.nshards == cfg.shard).collect();
    let mut too_wide: Option<u32> = None;
    let mut cases: Vec<SliderCase> = Vec::new();
    for &s in &squares {
        let mask = (if rook { tables::rook_mask(s) } else { tables::bishop_mask(s) }) | relevant_mask(rook, s);
        if mask.count_ones() > 18 {
            too_wide = Some(s);
            continue;
        }
        // carry-rippler: all subsets of mask
        let mut sub = 0u64;
        loop {
            cases.push(SliderCase { rook, square: s, occupancy: sub });
            sub = sub.wrapping_sub(mask) & mask;
            if sub == 0 {
                break;
            }
        }
    }
    let mut out = run_exhaustive(cfg, cases.into_iter(), check_slider);
    if let Some(s) = too_wide {
        out.exhaustive = false;
        out.notes.push(format!("mask of square {s} wider than 18 bits: not enumerated completely"));
    }
    out
}

pub fn check_leaper(c: &LeaperCase, ctx: &mut Ctx) -> Result<(), String> {
    let (f0, r0) = ((c.square % 8) as i32, (c.square / 8) as i32);
    // row 0 is rank 8: "north" (towards rank 8) is row - 1
    let (name, deltas): (&str, Vec<(i32, i32)>) = match c.table {
        0 => ("king", vec![(1, 0), (1, 1), (0, 1), (-1, 1), (-1, 0), (-1, -1), (0, -1), (1, -1)]),
        1 => ("knight", vec![(1, 2), (2, 1), (2, -1), (1, -2), (-1, -2), (-2, -1), (-2, 1), (-1, 2)]),
        2 => ("white pawn", vec![(-1, -1), (1, -1)]),
        _ => ("black pawn", vec![(-1, 1), (1, 1)]),
    };
    let mut want = 0u64;
    for (df, dr) in deltas {
        let (f, r) = (f0 + df, r0 + dr);
        if (0..8).contains(&f) && (0..8).contains(&r) {
            want |= bit(f, r);
        }
    }
    let got = match c.table {
        0 => tables::king_attacks(c.square),
        1 => tables::knight_attacks(c.square),
        2 => tables::white_pawn_attacks(c.square),
        _ => tables::black_pawn_attacks(c.square),
    };
    if got != want {
        return Err(format!("{name} attack table for square {}: table {:#018x}, step pattern {:#018x}", c.square, got, want));
    }
    ctx.nontrivial((c.table, c.square));
    ctx.sample(|| serde_json::json!({"table": name, "square": c.square, "attacks": format!("{:#018x}", got)}));
    Ok(())
}
