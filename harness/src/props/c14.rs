//! C14 — SAN output is standard, unambiguous and round-trips through the SAN parser.

use proptest::prelude::*;
use serde::{Deserialize, Serialize};

use crate::eng;
use crate::gen::{self, ClockDomain};
use crate::props::PosCase;
use crate::refmodel::{file_of, rank_of, sq_name, Kind, Mv, Pos};
use crate::run::{replay_case, run_part, Ctx, Part, Property};

pub fn property() -> Property {
    Property {
        id: "C14",
        level: "exploration",
        rule: "(output) generated positions (general mix plus the 'many like pieces', promotion and mating-net profiles) x ALL legal moves: uci_to_pgn equals the reference SAN writer (PGN standard: minimal disambiguation file / rank / both among LEGAL rivals, x, =P, O-O/O-O-O, + and # only for mate) and pgn_to_bb of that text returns the same move; (parser) SAN-shaped strings derived from legal moves by adding / dropping disambiguation, capture mark, promotion, changing piece letter or target: Ok(m) iff m is the unique legal move satisfying every constraint spelled in the string, otherwise Err. Non-trivial = distinct (FEN, move) with >= 2 like pieces able to reach the target legally, or a promotion, or a move giving check / mate / stalemate",
        assumptions: &["the check suffix in parser input is treated as annotation (not a constraint); non-standard shapes (promotion suffix on piece moves, king 'moves' of two files, digits 0-0) are not generated"],
        parts: vec![
            Part {
                name: "output",
                quick: 50_000,
                thorough: 5_000_000,
                single_shard: false, supplementary: false,
                run: |cfg| run_part(cfg, san_positions(), |r| PosCase { fen: gen::position(r, ClockDomain::Keep).fen() }, check_output),
                replay: |v| replay_case::<PosCase, _>(v, check_output),
            },
            Part {
                name: "parser",
                quick: 25_000,
                thorough: 2_500_000,
                single_shard: false, supplementary: false,
                run: |cfg| run_part(cfg, (san_positions(), proptest::collection::vec((any::<u16>(), any::<u16>()), 1..12)), |(r, v)| ParserCase { fen: gen::position(r, ClockDomain::Keep).fen(), picks: v.clone() }, check_parser),
                replay: |v| replay_case::<ParserCase, _>(v, check_parser),
            },
        ],
    }
}

fn san_positions() -> impl Strategy<Value = gen::RawPos> {
    prop_oneof![
        3 => gen::raw_pos(80),
        3 => gen::raw_synth_profiles(3, 4).prop_map(gen::RawPos::Synth),
        1 => gen::raw_synth_profiles(5, 7).prop_map(gen::RawPos::Synth),
        1 => gen::raw_pos_endgames(),
    ]
}

pub fn check_output(c: &PosCase, ctx: &mut Ctx) -> Result<(), String> {
    let p = Pos::from_fen(&c.fen).ok_or_else(|| format!("HARNESS: bad case fen {}", c.fen))?;
    let mut b = eng::board_from_pos(&p);
    let legal = p.legal_moves();
    for &m in &legal {
        let want = p.san(m);
        let got = b.uci_to_pgn(&m.uci()).map_err(|e| format!("uci_to_pgn({m}) fails for a legal move in {}: {e:?}", c.fen))?;
        if got != want {
            return Err(format!("SAN of {m} in {}: engine writes {got:?}, standard is {want:?}", c.fen));
        }
        match b.pgn_to_bb(&got) {
            Ok(mv) => {
                if mv.to_uci_string() != m.uci() {
                    return Err(format!("SAN {got:?} written for {m} in {} parses back as {}", c.fen, mv.to_uci_string()));
                }
            }
            Err(_) => return Err(format!("SAN {got:?} written for {m} in {} does not parse back", c.fen)),
        }
        ctx.evals(1);
        // classes
        let kind = p.board[m.from as usize].map(|x| x.1).unwrap_or(Kind::Pawn);
        let rivals = legal.iter().filter(|o| o.to == m.to && o.from != m.from && p.board[o.from as usize] == p.board[m.from as usize]).count();
        let mut nt = false;
        if kind != Kind::Pawn && rivals > 0 {
            let rv: Vec<&Mv> = legal.iter().filter(|o| o.to == m.to && o.from != m.from && p.board[o.from as usize] == p.board[m.from as usize]).collect();
            let sf = rv.iter().any(|o| file_of(o.from) == file_of(m.from));
            let sr = rv.iter().any(|o| rank_of(o.from) == rank_of(m.from));
            ctx.class(match (sf, sr) {
                (false, false) => "rival_sharing_neither_file_nor_rank",
                (false, true) => "rival_on_same_rank",
                (true, false) => "rival_on_same_file",
                (true, true) => "rivals_on_same_file_and_rank",
            });
            nt = true;
        }
        if kind != Kind::Pawn {
            // a like piece that attacks the target but is pinned must NOT cause disambiguation
            let pseudo_rivals = p.pseudo_moves().iter().filter(|o| o.to == m.to && o.from != m.from && p.board[o.from as usize] == p.board[m.from as usize]).count();
            if pseudo_rivals > rivals {
                ctx.class("pinned_rival_ignored");
                nt = true;
            }
        }
        if m.promo.is_some() {
            ctx.class("promotion");
            nt = true;
        }
        if p.is_ep(m) {
            ctx.class("en_passant");
            nt = true;
        }
        if p.is_castle(m) {
            ctx.class("castle");
            nt = true;
        }
        if want.ends_with('#') {
            ctx.class("mate");
            nt = true;
        } else if want.ends_with('+') {
            ctx.class("check");
            nt = true;
        } else if p.apply(m).legal_moves().is_empty() {
            ctx.class("stalemating_move");
            nt = true;
        }
        if nt {
            ctx.nontrivial((p.fen4(), m));
        }
    }
    ctx.sample(|| serde_json::json!({"fen": c.fen, "san": legal.iter().take(8).map(|&m| p.san(m)).collect::<Vec<_>>()}));
    Ok(())
}

// ------------------------------------------------------------------------------------------------

#[derive(Debug, Clone, Serialize, Deserialize)]
pub struct ParserCase {
    pub fen: String,
    pub picks: Vec<(u16, u16)>,
}

#[derive(Debug, Clone, PartialEq)]
struct SanSpec {
    castle: Option<bool>, // Some(true) = king side
    piece: Option<Kind>,
    from_file: Option<i32>,
    from_rank: Option<i32>,
    takes: bool,
    target: u8,
    promo: Option<Kind>,
    suffix: &'static str,
}

impl SanSpec {
    fn text(&self) -> String {
        if let Some(k) = self.castle {
            return format!("{}{}", if k { "O-O" } else { "O-O-O" }, self.suffix);
        }
        let mut s = String::new();
        if let Some(k) = self.piece {
            s.push(k.letter().to_ascii_uppercase());
        }
        if let Some(f) = self.from_file {
            s.push((b'a' + f as u8) as char);
        }
        if let Some(r) = self.from_rank {
            s.push((b'1' + r as u8) as char);
        }
        if self.takes {
            s.push('x');
        }
        s.push_str(&sq_name(self.target));
        if let Some(k) = self.promo {
            s.push('=');
            s.push(k.letter().to_ascii_uppercase());
        }
        s.push_str(self.suffix);
        s
    }

    fn matches(&self, p: &Pos, m: Mv) -> bool {
        let kind = p.board[m.from as usize].map(|x| x.1).unwrap_or(Kind::Pawn);
        if let Some(k) = self.castle {
            return p.is_castle(m) && (file_of(m.to) == 6) == k;
        }
        if kind != self.piece.unwrap_or(Kind::Pawn) {
            return false;
        }
        if m.to != self.target {
            return false;
        }
        if let Some(f) = self.from_file {
            if file_of(m.from) != f {
                return false;
            }
        }
        if let Some(r) = self.from_rank {
            if rank_of(m.from) != r {
                return false;
            }
        }
        if self.takes && !p.is_capture(m) {
            return false;
        }
        if self.piece.is_none() {
            // pawn: a promotion letter must match; without one every promotion piece matches (hence ambiguity)
            if let Some(k) = self.promo {
                if m.promo != Some(k) {
                    return false;
                }
            }
        }
        true
    }
}

fn spec_of(p: &Pos, m: Mv) -> SanSpec {
    let kind = p.board[m.from as usize].map(|x| x.1).unwrap_or(Kind::Pawn);
    if p.is_castle(m) {
        return SanSpec { castle: Some(file_of(m.to) == 6), piece: None, from_file: None, from_rank: None, takes: false, target: m.to, promo: None, suffix: "" };
    }
    let capture = p.is_capture(m);
    SanSpec {
        castle: None,
        piece: if kind == Kind::Pawn { None } else { Some(kind) },
        from_file: if kind == Kind::Pawn && capture { Some(file_of(m.from)) } else { None },
        from_rank: None,
        takes: capture,
        target: m.to,
        promo: m.promo,
        suffix: "",
    }
}

pub fn check_parser(c: &ParserCase, ctx: &mut Ctx) -> Result<(), String> {
    let p = Pos::from_fen(&c.fen).ok_or_else(|| format!("HARNESS: bad case fen {}", c.fen))?;
    let mut b = eng::board_from_pos(&p);
    let legal = p.legal_moves();
    if legal.is_empty() {
        return Ok(());
    }
    // pseudo-legal moves that are not legal (pinned piece, king left in check, e.p. with a pinned capturer): SAN naming
    // only such a move must be rejected
    let illegal: Vec<Mv> = p.pseudo_moves().into_iter().filter(|m| !legal.contains(m)).collect();
    for &(x, y) in &c.picks {
        let from_illegal = !illegal.is_empty() && y % 5 == 4;
        let m = if from_illegal { illegal[gen::pick(x as u32, 16, illegal.len())] } else { legal[gen::pick(x as u32, 16, legal.len())] };
        if from_illegal {
            ctx.class("text_derived_from_an_illegal_pseudo_legal_move");
        }
        let mut s = spec_of(&p, m);
        if s.castle.is_none() {
            // vary the amount of disambiguation and the other marks
            match y % 16 {
                0 => {}
                1 => s.from_file = Some(file_of(m.from)),
                2 if s.piece.is_some() => s.from_rank = Some(rank_of(m.from)),
                3 if s.piece.is_some() => {
                    s.from_file = Some(file_of(m.from));
                    s.from_rank = Some(rank_of(m.from));
                }
                4 => s.takes = !s.takes,
                5 => s.target = ((s.target as u16 + 1 + (y >> 4) % 63) % 64) as u8,
                6 if s.piece.is_some() => s.piece = Some([Kind::Knight, Kind::Bishop, Kind::Rook, Kind::Queen, Kind::King][((y >> 4) % 5) as usize]),
                7 if s.piece.is_none() => s.promo = if s.promo.is_some() { None } else { Some(Kind::Queen) },
                8 if s.piece.is_none() && s.promo.is_some() => s.promo = Some([Kind::Knight, Kind::Bishop, Kind::Rook, Kind::Queen][((y >> 4) % 4) as usize]),
                9 => s.from_file = Some(((y >> 4) % 8) as i32),
                10 if s.piece.is_some() => s.from_rank = Some(((y >> 4) % 8) as i32),
                11 => s.from_file = None,
                12 => s.suffix = ["+", "#", "!", "?!", "+!"][((y >> 4) % 5) as usize],
                _ => {}
            }
        } else if y % 4 == 1 {
            s.castle = s.castle.map(|k| !k);
        }
        let text = s.text();
        let matching: Vec<Mv> = legal.iter().copied().filter(|&o| s.matches(&p, o)).collect();
        // out-of-standard corner: a "K" move that only castling would satisfy is not asserted either way
        if s.piece == Some(Kind::King) && !matching.is_empty() && matching.iter().all(|&o| p.is_castle(o)) {
            ctx.class("skipped_king_two_files");
            continue;
        }
        let before = eng::snap(&b);
        let got = b.pgn_to_bb(&text).ok().map(|mv| mv.to_uci_string());
        if eng::snap(&b) != before {
            return Err(format!("pgn_to_bb({text:?}) changed the board in {}", c.fen));
        }
        let want = if matching.len() == 1 { Some(matching[0].uci()) } else { None };
        if got != want {
            return Err(format!("pgn_to_bb({text:?}) in {}: engine {:?}; legal moves satisfying the text: {:?} => should be {:?}", c.fen, got, matching.iter().map(Mv::uci).collect::<Vec<_>>(), want));
        }
        ctx.evals(1);
        ctx.class(match matching.len() {
            0 => "no_match",
            1 => "unique_match",
            _ => "ambiguous",
        });
        if matching.len() != 1 || s != spec_of(&p, m) {
            ctx.nontrivial((p.fen4(), text));
        }
    }
    ctx.sample(|| serde_json::json!({"fen": c.fen, "picks": c.picks.len()}));
    Ok(())
}
