//! C09 — an interrupted search leaves the engine's position untouched (fault enumeration).

use std::sync::mpsc::{channel, Receiver};
use std::sync::Arc;

use inkayaku_core::fen::Fen;
use inkayaku_engine_core::verif::{set_abort_plan, AbortMode, VerifSearch};
use inkayaku_uci::command::CommandUciTx;
use inkayaku_uci::{Go, Info, UciMove, UciTxCommand};
use proptest::prelude::*;
use serde::{Deserialize, Serialize};
use std::str::FromStr;

use crate::eng;
use crate::engsess::{score_text, GoSpec, Session, Wait};
use crate::gen::{self, ClockDomain};
use crate::props::c07::root_of;
use crate::refmodel::{Mv, Pos};
use crate::run::{replay_case, run_part, Ctx, Part, Property, HARNESS_PREFIX};

pub fn property() -> Property {
    Property {
        id: "C09",
        level: "fault_enumeration",
        rule: "(injected) the search is run synchronously (hook) and the regular poll is forced at negamax node n, in both forms the code has (a `stop` waiting in the command channel = flag set and node continues; move time expired = flag set and immediate return): for a root P with `go depth 2..4` whose clean run visits N nodes, EVERY n in 1..N when N <= 1500 (and the tree incl. quiescence is small enough for a work budget of 24 million nodes per root), otherwise all iteration boundaries +-2 plus a stratified sample of 12..500 points; optionally two interrupted searches in a row. After each: exactly one BestMove; if an iteration had completed it is the first move of the last reported pv and legal in P; the search's board (read back as FEN) equals P exactly; a following `go depth 1` WITHOUT a position command answers a move legal in P with the depth-1 score of a fresh engine given P. (threaded) real engine threads: go infinite / movetime / depth on busy middlegames, stop (or quit) after 0..300 ms, board read back through the engine (hook message) and the same follow-up check. Non-trivial = distinct (P, n, mode) with the abort landing below the root (something was made and not yet unmade)",
        assumptions: &["the hook generalises the polling point from 'every 100,000th node' to 'any node': a superset of the real interruption points on the same code path", "points inside the first iteration cannot be polled in reality (< 100,000 nodes): there only the position-untouched part is asserted, a null bestmove is accepted"],
        parts: vec![
            Part {
                name: "injected",
                quick: 96,
                thorough: 12_000,
                single_shard: false, supplementary: false,
                run: |cfg| run_part(cfg, (prop_oneof![2 => gen::raw_pos(60), 1 => gen::raw_pos_endgames()], gen::raw_playout(6), 2..=4u32, any::<bool>(), 0..8u8), |(r, h, d, mode, k)| inj_case(r, h, *d, *mode, *k), check_injected),
                replay: |v| replay_case::<InjCase, _>(v, check_injected),
            },
            Part {
                name: "point",
                quick: 0,
                thorough: 0,
                single_shard: true, supplementary: true,
                run: |cfg| crate::run::run_exhaustive(cfg, std::iter::empty::<PointCase>(), check_point),
                replay: |v| replay_case::<PointCase, _>(v, check_point),
            },
            Part {
                name: "threaded",
                quick: 96,
                thorough: 6_000,
                single_shard: false, supplementary: false,
                run: |cfg| run_part(cfg, (gen::raw_playout(40), 0..6u8, 0..8u8, any::<bool>(), 0..3u8), |(r, kind, delay, quit, resend)| thr_case(r, *kind, *delay, *quit, *resend), check_threaded),
                replay: |v| replay_case::<ThrCase, _>(v, check_threaded),
            },
        ],
    }
}

#[derive(Debug, Clone, Serialize, Deserialize)]
pub struct InjCase {
    pub fen: String,
    pub history: Vec<String>,
    pub depth: u32,
    pub time_up: bool,
    /// 0,1: one interrupted search; 2: two in a row; 3: an interrupted one, then a completed one, then another interrupted one;
    /// 4,5: as 0 / 2 but `ucinewgame` arrives between the interrupted search and the follow-up go;
    /// 6: a completed search on the position two plies earlier comes first (the engine's previous turn of the game);
    /// 7: as 6, and the two plies in between are the bestmove and the ponder move that search announced
    pub pattern: u8,
}

/// one interruption point, self-contained (the shrunk form of a failing InjCase)
#[derive(Debug, Clone, Serialize, Deserialize)]
pub struct PointCase {
    pub fen: String,
    pub history: Vec<String>,
    pub depth: u32,
    pub time_up: bool,
    pub node: u64,
    pub before: Vec<u64>,
    #[serde(default)]
    pub new_game_before_follow_up: bool,
}

fn inj_case(r: &gen::RawPos, h: &gen::RawPlayout, depth: u32, time_up: bool, pattern: u8) -> InjCase {
    let p = gen::position(r, ClockDomain::Engine);
    let g = gen::play_from(p.clone(), &h.choices);
    InjCase { fen: p.fen(), history: g.moves.iter().map(Mv::uci).collect(), depth, time_up, pattern }
}

struct Sync {
    vs: VerifSearch<CommandUciTx>,
    rx: Receiver<UciTxCommand>,
}

/// marker in `before`: a completed search on the position two plies before the root
const PREV_TURN: u64 = u64::MAX - 1;

struct Answer {
    best: Vec<Option<UciMove>>,
    infos: Vec<Info>,
}

impl Sync {
    fn new(fen: &str, history: &[String]) -> Result<Sync, String> {
        let (tx, rx) = channel();
        let mut vs = VerifSearch::new(Arc::new(CommandUciTx::new(tx)));
        let f = Fen::from_str(fen).map_err(|e| format!("{HARNESS_PREFIX} fen {fen}: {e:?}"))?;
        let mv: Vec<UciMove> = history.iter().map(|m| UciMove::from_str(m).map_err(|e| format!("{HARNESS_PREFIX} move {m}: {e:?}"))).collect::<Result<_, _>>()?;
        vs.set_position(f, mv);
        Ok(Sync { vs, rx })
    }
    fn position(&mut self, fen: &str, history: &[String]) -> Result<(), String> {
        let f = Fen::from_str(fen).map_err(|e| format!("{HARNESS_PREFIX} fen {fen}: {e:?}"))?;
        let mv: Vec<UciMove> = history.iter().map(|m| UciMove::from_str(m).map_err(|e| format!("{HARNESS_PREFIX} move {m}: {e:?}"))).collect::<Result<_, _>>()?;
        self.vs.set_position(f, mv);
        Ok(())
    }
    fn go(&mut self, depth: u64, plan: Option<(u64, AbortMode)>) -> Answer {
        set_abort_plan(plan);
        self.vs.go(Go { depth: Some(depth), ..Go::default() });
        set_abort_plan(None);
        let mut a = Answer { best: Vec::new(), infos: Vec::new() };
        while let Ok(m) = self.rx.try_recv() {
            match m {
                UciTxCommand::BestMove { best_move, .. } => a.best.push(best_move),
                UciTxCommand::Info { info } => a.infos.push(info),
                _ => {}
            }
        }
        a
    }
}

fn last_score(a: &Answer) -> Option<String> {
    a.infos.iter().rev().find_map(|i| i.score.map(|s| score_text(&s)))
}

struct Baseline {
    root: Pos,
    root_fen: String,
    legal: Vec<String>,
    depth1_score: Option<String>,
    nodes_depth1: u64,
    nodes_total: u64,
    /// negamax + quiescence nodes of the clean run (what one interrupted run can cost)
    work_total: u64,
    boundaries: Vec<u64>,
    /// result of the clean run to depth k (index k-1): best move and score text
    clean: Vec<(Option<String>, Option<String>)>,
}

fn baseline(fen: &str, history: &[String], depth: u32) -> Result<Baseline, String> {
    let root = root_of(fen, history)?;
    let root_fen = eng::eng_fen(&eng::board_from_pos(&root));
    let legal: Vec<String> = root.legal_moves().iter().map(Mv::uci).collect();
    let mut s = Sync::new(fen, history)?;
    let a = s.go(1, None);
    let nodes_depth1 = s.vs.nodes_of_last_search();
    let depth1_score = last_score(&a);
    let mut boundaries = Vec::new();
    let mut clean = Vec::new();
    let mut nodes_total = 0;
    let mut work_total = 0;
    for d in 1..=depth {
        let mut s = Sync::new(fen, history)?;
        let a = s.go(d as u64, None);
        nodes_total = s.vs.nodes_of_last_search();
        work_total = a.infos.iter().filter_map(|i| i.nodes).max().unwrap_or(nodes_total);
        boundaries.push(nodes_total);
        clean.push((a.best.first().cloned().flatten().map(|m| m.to_string()), last_score(&a)));
    }
    Ok(Baseline { root, root_fen, legal, depth1_score, nodes_depth1, nodes_total, work_total, boundaries, clean })
}

/// one search interrupted at `node` (after the interrupted searches in `before`), then all checks
fn one_point(fen: &str, history: &[String], depth: u32, time_up: bool, node: u64, before: &[u64], new_game: bool, base: &Baseline) -> Result<bool, String> {
    let mode = if time_up { AbortMode::TimeUp } else { AbortMode::StopSeen };
    let mut s = Sync::new(fen, history)?;
    let what = |extra: &str| format!("position fen {fen} moves {history:?}; go depth {depth} interrupted at node {node} ({}){}{extra}", if time_up { "time up" } else { "stop seen" }, if before.is_empty() { String::new() } else { format!(" after earlier interruptions at {before:?}") });
    for &b in before {
        if b == PREV_TURN {
            // the engine's previous turn: same game, two plies earlier, searched to the end
            let h = &history[..history.len().saturating_sub(2)];
            s.position(fen, h)?;
            s.go(depth as u64, None);
            s.position(fen, history)?;
        } else if b == u64::MAX {
            s.go(depth as u64, None);
        } else {
            s.go(depth as u64, Some((b, mode)));
        }
    }
    let a = s.go(depth as u64, Some((node, mode)));
    if a.best.len() != 1 {
        return Err(what(&format!(": {} bestmove messages", a.best.len())));
    }
    let interrupted = s.vs.nodes_of_last_search() < base.nodes_total;
    let iteration_completed = node >= base.nodes_depth1;
    match &a.best[0] {
        Some(m) => {
            let m = m.to_string();
            if !base.legal.contains(&m) {
                return Err(what(&format!(": bestmove {m} is not legal in the searched position {}", base.root_fen)));
            }
            let last_pv = a.infos.iter().rev().find_map(|i| i.principal_variation.clone());
            if last_pv.as_ref().and_then(|pv| pv.first()).map(|x| x.to_string()) != Some(m.clone()) {
                return Err(what(&format!(": bestmove {m} is not the first move of the last reported pv {:?}", last_pv.map(|pv| pv.iter().map(|x| x.to_string()).collect::<Vec<_>>()))));
            }
        }
        None => {
            if iteration_completed && !base.legal.is_empty() {
                return Err(what(": bestmove 0000 although at least one iteration had completed"));
            }
        }
    }
    // "taken from the last completed iteration": k iterations were complete when the poll fired
    let k = base.boundaries.iter().filter(|b| **b <= node).count();
    // (node counts per iteration depend on killers / pv carried over from earlier searches, so the iteration
    // boundaries of the fresh baseline only apply to a fresh instance)
    if k >= 1 && interrupted && before.is_empty() {
        let last = a.infos.iter().rev().find(|i| i.score.is_some());
        let reported_depth = last.and_then(|i| i.depth);
        if reported_depth != Some(k as u32) {
            return Err(what(&format!(": {k} iteration(s) had completed when the search was interrupted, but the final report claims depth {reported_depth:?}")));
        }
        {
            // on a fresh instance the run is deterministic: same move and score as the clean search to depth k
            let (cb, cs) = &base.clean[k - 1];
            let got_best = a.best[0].as_ref().map(|m| m.to_string());
            if &got_best != cb || &last_score(&a) != cs {
                return Err(what(&format!(": answered {got_best:?} / {:?}, but the last completed iteration (depth {k}) gives {cb:?} / {cs:?}", last_score(&a))));
            }
        }
    }
    let now = s.vs.board_fen();
    if now != base.root_fen {
        return Err(what(&format!(": the engine now holds {now} instead of {}", base.root_fen)));
    }
    // a second go without a position command searches the same position
    if new_game {
        s.vs.new_game();
    }
    let f = s.go(1, None);
    if f.best.len() != 1 {
        return Err(what(&format!(": the following go depth 1 produced {} bestmove messages", f.best.len())));
    }
    match &f.best[0] {
        Some(m) if !base.legal.contains(&m.to_string()) => return Err(what(&format!(": the following go depth 1 (no position command) answers {m}, illegal in {}", base.root_fen))),
        None if !base.legal.is_empty() => return Err(what(": the following go depth 1 answers 0000")),
        _ => {}
    }
    let sc = last_score(&f);
    if sc != base.depth1_score {
        return Err(what(&format!(": the following go depth 1 scores {sc:?}, a fresh engine given the position scores {:?}", base.depth1_score)));
    }
    if s.vs.board_fen() != base.root_fen {
        return Err(what(": position changed by the follow-up search"));
    }
    Ok(interrupted)
}

pub fn check_point(c: &PointCase, _ctx: &mut Ctx) -> Result<(), String> {
    let base = baseline(&c.fen, &c.history, c.depth)?;
    one_point(&c.fen, &c.history, c.depth, c.time_up, c.node, &c.before, c.new_game_before_follow_up, &base).map(|_| ())
}

pub fn check_injected(c: &InjCase, ctx: &mut Ctx) -> Result<(), String> {
    // pattern 7: the root is the position after the engine's own bestmove and the announced ponder move
    let mut c = c.clone();
    if c.pattern == 7 {
        let h: Vec<String> = c.history[..c.history.len().saturating_sub(2)].to_vec();
        let mut s = Sync::new(&c.fen, &h)?;
        let a = s.go(c.depth as u64, None);
        let pv: Vec<String> = a.infos.iter().rev().find_map(|i| i.principal_variation.clone()).map(|pv| pv.iter().map(|m| m.to_string()).collect()).unwrap_or_default();
        let prev = root_of(&c.fen, &h)?;
        let ok = pv.len() >= 2 && Mv::parse(&pv[0]).map_or(false, |m| prev.is_legal(m) && Mv::parse(&pv[1]).map_or(false, |r| prev.apply(m).is_legal(r)));
        if ok {
            c.history = h;
            c.history.push(pv[0].clone());
            c.history.push(pv[1].clone());
            ctx.class("root_reached_by_bestmove_and_ponder_move");
        } else {
            c.pattern = 6;
        }
    }
    let c = &c;
    let base = baseline(&c.fen, &c.history, c.depth)?;
    if base.legal.is_empty() {
        ctx.class("terminal_root");
        return Ok(());
    }
    let n = base.nodes_total;
    let mut points: Vec<u64> = Vec::new();
    // work bound per root: about 40 million nodes (quiescence included) over all interrupted runs
    let pattern_len: u64 = match c.pattern { 2 | 5 | 6 | 7 => 2, 3 => 3, _ => 1 };
    let affordable = (24_000_000 / base.work_total.max(1) / pattern_len).max(12);
    if n <= 1500 && n <= affordable {
        points.extend(1..=n);
    } else {
        for &b in &base.boundaries {
            for d in -2i64..=2 {
                let x = b as i64 + d;
                if x >= 1 && x as u64 <= n {
                    points.push(x as u64);
                }
            }
        }
        // keep the work per root bounded: an interrupted run costs up to n nodes (times the pattern length)
        let budget_points = affordable.clamp(12, 500);
        let step = (n / budget_points).max(1);
        let mut x = 1 + (n % step);
        while x <= n {
            points.push(x);
            x += step;
        }
        points.sort();
        points.dedup();
    }
    for &node in &points {
        let before: Vec<u64> = match c.pattern {
            2 | 5 => vec![(node * 7 + 3) % n + 1],
            3 => vec![(node * 5 + 1) % n + 1, u64::MAX],
            6 | 7 => vec![PREV_TURN],
            _ => vec![],
        };
        let new_game = matches!(c.pattern, 4 | 5);
        match one_point(&c.fen, &c.history, c.depth, c.time_up, node, &before, new_game, &base) {
            Ok(interrupted) => {
                ctx.evals(1);
                if interrupted {
                    ctx.class(if c.time_up { "interrupted_time_up" } else { "interrupted_stop_seen" });
                    if node < base.nodes_depth1 {
                        ctx.class("inside_first_iteration");
                    }
                    ctx.nontrivial((c.fen.clone(), c.history.clone(), c.depth, c.time_up, node, before.len()));
                } else {
                    ctx.class("poll_after_last_node_no_interruption");
                }
            }
            Err(e) => {
                // self-contained reproduction of this single point
                let pc = PointCase { fen: c.fen.clone(), history: c.history.clone(), depth: c.depth, time_up: c.time_up, node, before, new_game_before_follow_up: new_game };
                return Err(format!("{e}\n  single-point replay: {{\"property\":\"C09\",\"part\":\"point\",\"case\":{}}}", serde_json::to_string(&pc).unwrap_or_default()));
            }
        }
    }
    ctx.class(if n <= 1500 && n <= affordable { "all_points_enumerated" } else { "points_sampled" });
    if !before_empty(c.pattern) {
        ctx.class("consecutive_interrupted_searches");
    }
    if c.pattern >= 4 {
        ctx.class("ucinewgame_before_follow_up");
    }
    ctx.sample(|| serde_json::json!({"fen": c.fen, "history": c.history, "depth": c.depth, "mode": if c.time_up { "time_up" } else { "stop_seen" }, "nodes_clean_run": n, "points": points.len(), "pattern": c.pattern}));
    Ok(())
}

fn before_empty(pattern: u8) -> bool {
    pattern < 2 || pattern == 4
}

// ------------------------------------------------------------------------------------------------
// real threads

#[derive(Debug, Clone, Serialize, Deserialize)]
pub struct ThrCase {
    pub fen: String,
    pub history: Vec<String>,
    pub go: GoSpec,
    pub quit_instead_of_stop: bool,
    #[serde(default)]
    pub new_game_before_follow_up: bool,
    /// the GUI sends the unchanged `position` command again while the search runs (0 = no, 1 = right after
    /// `go`, 2 = just before `stop`): whatever an engine does with it, it still holds that position afterwards
    #[serde(default)]
    pub resend_position: u8,
}

fn thr_case(r: &gen::RawPlayout, kind: u8, delay: u8, quit: bool, resend: u8) -> ThrCase {
    // busy middlegames: early positions of playouts from the seeds
    // (clock kept below the fifty-move limit: see the note in C07's build_go)
    let mut start = gen::seed_position(r, ClockDomain::Engine);
    start.half = start.half.min(40);
    let g = gen::play_from(start, &r.choices);
    let delays = [0u64, 1, 10, 60, 120, 200, 260, 300];
    let mut go = GoSpec::default();
    match kind {
        0 | 1 => {
            go.infinite = true;
            go.stop_after_ms = Some(delays[delay as usize]);
        }
        2 => {
            go.depth = Some(6);
            go.stop_after_ms = Some(delays[delay as usize]);
        }
        3 => go.movetime = Some(5 + 25 * delay as u64),
        4 => {
            go.wtime = Some(3000);
            go.btime = Some(3000);
            go.winc = Some(20 + 10 * delay as u64);
            go.binc = Some(20 + 10 * delay as u64);
        }
        _ => {
            go.stop_after_ms = Some(delays[delay as usize]);
        }
    }
    ThrCase { fen: g.start.fen(), history: g.moves.iter().map(Mv::uci).collect(), go, quit_instead_of_stop: quit && kind < 3, new_game_before_follow_up: delay % 2 == 1, resend_position: resend }
}

pub fn check_threaded(c: &ThrCase, ctx: &mut Ctx) -> Result<(), String> {
    let root = root_of(&c.fen, &c.history)?;
    let legal: Vec<String> = root.legal_moves().iter().map(Mv::uci).collect();
    let root_fen = eng::eng_fen(&eng::board_from_pos(&root));
    let what = format!("position fen {} moves {:?}; `{}` stop after {:?} ms{}", c.fen, c.history, c.go.to_line(), c.go.stop_after_ms, ["", "; same position command re-sent right after go", "; same position command re-sent before stop"][c.resend_position.min(2) as usize]);
    // what a fresh engine says at depth 1
    let fresh = {
        let mut s = Session::new();
        s.position(&c.fen, &c.history)?;
        let o = match s.search(&GoSpec::depth(1)) {
            Wait::Done(o) => o,
            _ => return Err(format!("{HARNESS_PREFIX} fresh engine did not answer")),
        };
        s.quit()?;
        o.last_scored().and_then(|i| i.score).map(|x| score_text(&x))
    };
    let mut s = Session::new();
    s.position(&c.fen, &c.history)?;
    if c.quit_instead_of_stop {
        s.go(&c.go);
        std::thread::sleep(std::time::Duration::from_millis(c.go.stop_after_ms.unwrap_or(20)));
        // quit while the search runs: it must end the search, which still announces exactly one bestmove
        let mut n_best = 0;
        let r = s.quit_collect(&mut n_best);
        r.map_err(|e| format!("{what}: quit during the search: {e}"))?;
        if n_best != 1 {
            return Err(format!("{what}: quit during the search produced {n_best} bestmove messages"));
        }
        ctx.class("quit_mid_search");
        ctx.nontrivial((c.fen.clone(), c.history.clone(), "quit"));
        return Ok(());
    }
    let searched = if c.resend_position == 0 {
        s.search(&c.go)
    } else {
        s.go(&c.go);
        let wait = c.go.stop_after_ms.or(if c.go.is_unbounded() { Some(30) } else { None });
        if c.resend_position == 2 {
            std::thread::sleep(std::time::Duration::from_millis(wait.or(c.go.movetime.map(|m| m / 2)).unwrap_or(20)));
        }
        s.position(&c.fen, &c.history)?;
        ctx.class("position_resent_during_search");
        if let Some(ms) = wait {
            if c.resend_position == 1 {
                std::thread::sleep(std::time::Duration::from_millis(ms));
            }
            s.stop();
        }
        s.wait_bestmove()
    };
    let out = match searched {
        Wait::Done(o) => o,
        Wait::ThreadDied(_, d) if crate::engsess::is_k1_depth_form(crate::props::c07::root_ply(&root), d) => {
            ctx.known.insert(crate::engsess::K1_DEPTH_FORM.to_string());
            return Ok(());
        }
        Wait::ThreadDied(w, _) => return Err(format!("{what}: {w}")),
        Wait::Timeout => return Err(format!("{HARNESS_PREFIX} watchdog at {what}")),
    };
    match out.best_uci() {
        Some(m) if !legal.contains(&m) => return Err(format!("{what}: bestmove {m} illegal in {root_fen}")),
        None if !legal.is_empty() => return Err(format!("{what}: bestmove 0000")),
        _ => {}
    }
    let held = s.dump_fen().ok_or_else(|| format!("{what}: search thread gone"))?;
    if held != root_fen {
        return Err(format!("{what}: after the search the engine holds {held} instead of {root_fen}"));
    }
    if c.new_game_before_follow_up {
        s.new_game();
        ctx.class("ucinewgame_before_follow_up");
    }
    let f = match s.search(&GoSpec::depth(1)) {
        Wait::Done(o) => o,
        Wait::ThreadDied(w, _) => return Err(format!("{what}: follow-up go depth 1: {w}")),
        Wait::Timeout => return Err(format!("{HARNESS_PREFIX} watchdog at follow-up of {what}")),
    };
    match f.best_uci() {
        Some(m) if !legal.contains(&m) => return Err(format!("{what}: the following go depth 1 (no position command) answers {m}, illegal in {root_fen}")),
        None if !legal.is_empty() => return Err(format!("{what}: the following go depth 1 answers 0000")),
        _ => {}
    }
    let sc = f.last_scored().and_then(|i| i.score).map(|x| score_text(&x));
    if sc != fresh {
        return Err(format!("{what}: the following go depth 1 scores {sc:?}, a fresh engine scores {fresh:?}"));
    }
    s.quit().map_err(|e| format!("{what}: {e}"))?;
    let reached = out.infos.iter().filter_map(|i| i.depth).max().unwrap_or(0);
    ctx.class(if c.go.stop_after_ms.is_some() { "stopped" } else { "time_limit" });
    ctx.class(&format!("reached_depth_{}", reached.min(8)));
    ctx.nontrivial((c.fen.clone(), c.history.clone(), c.go.to_line(), c.go.stop_after_ms));
    ctx.sample(|| serde_json::json!({"fen": c.fen, "history": c.history, "go": c.go.to_line(), "stop_after_ms": c.go.stop_after_ms, "reached_depth": reached}));
    Ok(())
}
