//! C07 — every go is answered by exactly one bestmove, and it is a legal move.

use proptest::prelude::*;
use serde::{Deserialize, Serialize};

use crate::engsess::{BinSession, GoSpec, Session, Wait};
use crate::gen::{self, ClockDomain};
use crate::refmodel::{Kind, Mv, Pos};
use crate::run::{replay_case, run_part, Ctx, Part, PartCfg, PartOutcome, Property, HARNESS_PREFIX};

pub fn property() -> Property {
    Property {
        id: "C07",
        level: "exploration",
        rule: "stateful UCI sessions on ONE engine instance (in-process Engine<CommandUciTx>; every 8th session also over stdin/stdout of the real binary): 1..6 cycles of [ucinewgame] position (startpos|fen, with move history) go <limit>, limits drawn from depth 0..4, movetime 0..40, wtime/btime 0..6000 with winc/binc absent / 0 / >0 and movestogo, searchmoves (non-empty subset of the legal moves), infinite / nodes / mate / bare go followed by stop after 0..200 ms, stray stop / ponderhit / isready while idle; roots include positions that already occurred three times in the supplied history, single-reply, mate and stalemate roots. Oracle: one BestMove per go; for a root with legal moves it is a move of the reference legal set of the last position command (within searchmoves), never null; for a root without legal moves it is the null move; the search thread is alive at the end. Non-trivial = distinct (root, go-parameter class) with a time limit, searchmoves, a stop, or repetition history",
        assumptions: &["searches that only `stop` ends (infinite / nodes / mate / bare go / depth cut by stop) are started only on roots whose half-move clock is below 90 (at the fifty-move limit the engine deepens without polling until it hits K1's depth form)", "the driver is a well-behaved GUI: never sends position/go while a search runs and always sends both clock times", "full-move numbers <= 2000 by construction (known finding K1); one explicit probe of K1 per run", "a 90 s silence with a live search thread is reported as inconclusive (exit 2), never as a violation"],
        parts: vec![
            Part {
                name: "sessions",
                quick: 640,
                thorough: 12_000,
                single_shard: false, supplementary: false,
                run: |cfg| run_part(cfg, session_strategy(), |r| build_session(r), check_session),
                replay: |v| replay_case::<SessionCase, _>(v, check_session),
            },
            Part {
                name: "self_play",
                quick: 160,
                thorough: 6_000,
                single_shard: false, supplementary: false,
                run: |cfg| run_part(cfg, (gen::raw_playout(16), proptest::collection::vec((0..20u8, any::<u16>(), any::<bool>()), 2..9), any::<bool>()), |(r, plan, fen_root)| self_play_case(r, plan, *fen_root), check_self_play),
                replay: |v| replay_case::<SelfPlayCase, _>(v, check_self_play),
            },
            Part {
                name: "adversarial_followup",
                quick: 1_600,
                thorough: 60_000,
                single_shard: false, supplementary: false,
                run: |cfg| run_part(cfg, (prop_oneof![3 => gen::raw_pos(60), 1 => gen::raw_pos_endgames()], 1..=4u32, 1..=3u32, any::<u16>()), |(r, d1, d2, x)| AdvCase { fen: { let mut p = gen::position(r, ClockDomain::EngineQuiet); p.half = p.half.min(60); p.fen() }, first_depth: *d1, second_depth: *d2, pick: *x }, check_adversarial),
                replay: |v| replay_case::<AdvCase, _>(v, check_adversarial),
            },
            Part {
                name: "crowded_roots",
                quick: 800,
                thorough: 30_000,
                single_shard: false, supplementary: false,
                run: |cfg| run_part(cfg, (proptest::collection::vec((0..64u8, 0..8u8), 3..12), any::<u32>(), any::<bool>()), |(pieces, x, flip)| crowded_case(pieces, *x, *flip), check_crowded),
                replay: |v| replay_case::<CrowdedCase, _>(v, check_crowded),
            },
            Part {
                name: "long_session",
                quick: 16,
                thorough: 320,
                single_shard: false, supplementary: false,
                run: |cfg| run_part(cfg, (gen::raw_playout(60), any::<u32>()), |(r, salt)| long_case(r, *salt), check_long_session),
                replay: |v| replay_case::<LongCase, _>(v, check_long_session),
            },
            Part { name: "known_k1", quick: 1, thorough: 1, single_shard: true, supplementary: true, run: probe_k1, replay: |_| Ok(()) },
        ],
    }
}

#[derive(Debug, Clone, Serialize, Deserialize)]
pub enum Step {
    NewGame,
    Position { fen: String, moves: Vec<String> },
    Go(GoSpec),
    StrayStop,
    StrayPonderHit,
    IsReady,
    /// `debug on` / `debug off`
    Debug(bool),
}

#[derive(Debug, Clone, Serialize, Deserialize)]
pub struct SessionCase {
    pub steps: Vec<Step>,
    pub via_binary: bool,
}

#[derive(Debug, Clone)]
pub struct RawCycle {
    pub new_game: bool,
    pub root: gen::RawPos,
    pub history: gen::RawPlayout,
    pub root_kind: u8,
    pub go_kind: u8,
    pub a: u32,
    pub b: u32,
    pub stray: u8,
    /// 0 = search the previous root again after repeating its position command, 1 = again WITHOUT a position command,
    /// 2 = a different line of the same length that ends with the same move (only an earlier move differs)
    pub reuse: u8,
    pub ponder: u8,
}

#[derive(Debug, Clone)]
pub struct RawSession {
    pub cycles: Vec<RawCycle>,
    pub via_binary: u8,
}

pub fn cycle_strategy() -> impl Strategy<Value = RawCycle> {
    (any::<bool>(), prop_oneof![3 => gen::raw_pos(60), 2 => gen::raw_pos_endgames(), 1 => gen::raw_synth_profiles(8, 9).prop_map(gen::RawPos::Synth)], gen::raw_playout(24), 0..10u8, 0..12u8, any::<u32>(), any::<u32>(), (0..8u8, 0..7u8, 0..6u8)).prop_map(|(new_game, root, history, root_kind, go_kind, a, b, (stray, reuse, ponder))| RawCycle { new_game, root, history, root_kind, go_kind, a, b, stray, reuse, ponder })
}

fn session_strategy() -> impl Strategy<Value = RawSession> {
    (proptest::collection::vec(cycle_strategy(), 1..=6), 0..8u8).prop_map(|(cycles, via_binary)| RawSession { cycles, via_binary })
}

/// a pair of reversible moves (a by the side to move, b by the opponent) that can be shuffled back and forth
fn shuffle_pair(p: &Pos) -> Option<[Mv; 4]> {
    let quiet = |q: &Pos, m: Mv| {
        let k = q.board[m.from as usize].map(|x| x.1);
        !q.is_capture(m) && m.promo.is_none() && !q.is_castle(m) && k != Some(Kind::Pawn) && !(q.castle.iter().any(|&c| c) && matches!(k, Some(Kind::King) | Some(Kind::Rook)))
    };
    for a in p.legal_moves().into_iter().filter(|&m| quiet(p, m)) {
        let p1 = p.apply(a);
        for b in p1.legal_moves().into_iter().filter(|&m| quiet(&p1, m)) {
            let p2 = p1.apply(b);
            let a2 = Mv { from: a.to, to: a.from, promo: None };
            if !p2.is_legal(a2) || !quiet(&p2, a2) {
                continue;
            }
            let p3 = p2.apply(a2);
            let b2 = Mv { from: b.to, to: b.from, promo: None };
            if !p3.is_legal(b2) || !quiet(&p3, b2) {
                continue;
            }
            if p3.apply(b2).key() == p.key() {
                return Some([a, b, a2, b2]);
            }
        }
    }
    None
}

/// (fen, history moves, root position) for one cycle
pub fn build_root(c: &RawCycle) -> (String, Vec<String>, Pos, &'static str) {
    match c.root_kind {
        // start position with a played-out history
        0 | 1 => {
            let mut h = c.history.clone();
            h.seed = 0;
            h.flip = false;
            let g = gen::play(&h, ClockDomain::Keep);
            (crate::refmodel::START_FEN.to_string(), g.moves.iter().map(Mv::uci).collect(), g.last().clone(), "startpos_with_history")
        }
        // FEN root with history
        2 | 3 => {
            let g = gen::play(&c.history, ClockDomain::Engine);
            (g.start.fen(), g.moves.iter().map(Mv::uci).collect(), g.last().clone(), "fen_with_history")
        }
        // root that has already occurred three times
        4 | 5 => {
            // ... in a perpetual-check skeleton: two whole cycles played, the checking move now completes a third occurrence
            // (the best line of a deeper iteration may then be ONE move long where a shallower one was longer)
            if let gen::RawPos::Synth(rs) = &c.root {
                if let Some((q, cyc)) = crate::props::c10::perpetual_root(rs) {
                    let mut moves = Vec::new();
                    let mut cur = q.clone();
                    for i in 0..8 {
                        moves.push(cyc[i % 4].uci());
                        cur = cur.apply(cyc[i % 4]);
                    }
                    return (q.fen(), moves, cur, "perpetual_check_root");
                }
            }
            let p = gen::position(&c.root, ClockDomain::Engine);
            if let Some(sh) = shuffle_pair(&p) {
                let mut moves = Vec::new();
                let mut cur = p.clone();
                for _ in 0..2 {
                    for m in sh {
                        moves.push(m.uci());
                        cur = cur.apply(m);
                    }
                }
                (p.fen(), moves, cur, "threefold_root")
            } else {
                (p.fen(), Vec::new(), p, "fen_root")
            }
        }
        // plain FEN roots (many of them mate / stalemate / single-reply thanks to the endgame profiles)
        _ => {
            let p = gen::position(&c.root, ClockDomain::Engine);
            (p.fen(), Vec::new(), p, "fen_root")
        }
    }
}

pub fn build_go(c: &RawCycle, root: &Pos) -> GoSpec {
    let legal = root.legal_moves();
    let mut g = GoSpec::default();
    let stop_table = [0u64, 1, 5, 20, 80, 200];
    // A search that only `stop` can end reacts at the next poll (every 100,000 negamax nodes). With the
    // half-move clock at the fifty-move limit every leaf is a draw, iterations cost a dozen nodes, the engine
    // deepens thousands of plies per minute and hits finding K1's second form (root ply + depth >= 5000)
    // before it ever polls. Such searches are therefore only started on roots with a clock below 90.
    // The same happens, more slowly, on roots with almost no choice or with a repeated history (tiny iterations):
    // those get no stop-only searches either. What still slips through is classified as K1 when it happens.
    let risky = root.half >= 90 || legal.len() <= 2 || matches!(c.root_kind, 4 | 5) || root.board.iter().filter(|x| x.is_some()).count() <= 3;
    let go_kind = if risky && (6..=10).contains(&c.go_kind) { c.go_kind % 2 } else { c.go_kind };
    match go_kind {
        0 | 1 => g.depth = Some((c.a % 5) as u64),
        2 => g.movetime = Some([0u64, 0, 1, 2, 5, 10, 20, 40][(c.a % 8) as usize]),
        3 | 4 => {
            g.wtime = Some([0u64, 1, 10, 100, 1000, 6000][(c.a % 6) as usize]);
            g.btime = Some([0u64, 1, 10, 100, 1000, 6000][(c.a / 6 % 6) as usize]);
            match c.b % 4 {
                0 => {}
                1 => {
                    g.winc = Some(0);
                    g.binc = Some(0);
                }
                2 => {
                    g.winc = Some(1 + (c.b / 4 % 60) as u64);
                    g.binc = Some(1 + (c.b / 256 % 60) as u64);
                }
                _ => g.winc = Some((c.b / 4 % 30) as u64),
            }
            if c.b % 3 == 0 {
                g.movestogo = Some([0u64, 1, 2, 3, 10, 25, 40, 200][(c.b / 7 % 8) as usize]);
            }
        }
        5 => {
            g.depth = Some(1 + (c.a % 3) as u64);
            let under: Vec<&Mv> = legal.iter().filter(|m| matches!(m.promo, Some(k) if k != Kind::Queen)).collect();
            if !under.is_empty() && c.b % 4 != 0 {
                // only under-promotions: the promotion piece is part of the move
                let m = under[c.b as usize / 4 % under.len()];
                g.searchmoves.push(m.uci());
                if c.b % 3 == 0 {
                    if let Some(o) = under.iter().find(|o| o.from != m.from || o.to != m.to) {
                        g.searchmoves.push(o.uci());
                    }
                }
            } else if !legal.is_empty() {
                // non-empty subset of the legal moves
                let n = 1 + (c.b as usize % legal.len().min(4));
                let start = c.a as usize / 4 % legal.len();
                for i in 0..n {
                    let m = legal[(start + i * 7) % legal.len()].uci();
                    if !g.searchmoves.contains(&m) {
                        g.searchmoves.push(m);
                    }
                }
            }
        }
        6 => {
            g.infinite = true;
            g.stop_after_ms = Some(stop_table[(c.a % 6) as usize]);
        }
        7 => g.stop_after_ms = Some(stop_table[(c.a % 6) as usize]),
        8 => {
            g.nodes = Some(1 + (c.a % 100_000) as u64);
            g.stop_after_ms = Some(stop_table[(c.a % 6) as usize]);
        }
        9 => {
            g.mate = Some(1 + (c.a % 4) as u64);
            g.stop_after_ms = Some(stop_table[(c.a % 6) as usize]);
        }
        10 => {
            // a depth limit that is cut short by stop
            g.depth = Some(4 + (c.a % 3) as u64);
            g.stop_after_ms = Some(stop_table[(c.b % 6) as usize]);
        }
        _ => {
            g.movetime = Some((c.a % 41) as u64);
            if !legal.is_empty() && c.b % 2 == 0 {
                g.searchmoves.push(legal[c.b as usize / 2 % legal.len()].uci());
            }
        }
    }
    if g.searchmoves.is_empty() && g.depth.map_or(false, |d| d >= 1) && c.b % 3 == 0 {
        // whenever the root offers under-promotions, restrict a third of the depth searches to one of them
        let under: Vec<&Mv> = legal.iter().filter(|m| matches!(m.promo, Some(k) if k != Kind::Queen)).collect();
        if !under.is_empty() {
            g.searchmoves.push(under[c.a as usize % under.len()].uci());
        }
    }
    // time guard only: with several pawns about to promote the quiescence trees explode (millions of nodes at depth 3)
    let storm = (0..8).filter(|&f| root.board[crate::refmodel::sq(f, 6) as usize] == Some((crate::refmodel::Color::White, Kind::Pawn))).count() + (0..8).filter(|&f| root.board[crate::refmodel::sq(f, 1) as usize] == Some((crate::refmodel::Color::Black, Kind::Pawn))).count();
    if storm >= 3 {
        if let Some(d) = g.depth {
            g.depth = Some(d.min(2));
        }
    }
    if g.stop_after_ms.is_some() && c.ponder == 3 && c.b % 2 == 0 {
        // the GUI abandons the game: `stop` and `ucinewgame` in one go
        g.newgame_right_after_stop = true;
    }
    if c.ponder == 0 {
        // pondering: `go ponder ...`, then `ponderhit` while the search runs (the engine keeps searching)
        g.ponder = true;
        g.ponderhit_after_ms = Some([0u64, 2, 20, 60][(c.b % 4) as usize]);
        if g.stop_after_ms.is_some() {
            g.stop_after_ms = Some(220);
        }
    }
    g
}

fn build_session(r: &RawSession) -> SessionCase {
    let mut steps = Vec::new();
    let mut prev: Option<(String, Vec<String>, Pos)> = None;
    for c in &r.cycles {
        if c.new_game && !(c.reuse <= 1 && prev.is_some() && c.stray % 2 == 0) {
            steps.push(Step::NewGame);
        }
        let (fen, moves, root) = match (&prev, c.reuse) {
            (Some((f, m, p)), 0) => {
                steps.push(Step::Position { fen: f.clone(), moves: m.clone() });
                (f.clone(), m.clone(), p.clone())
            }
            // a second go for the position the engine already holds
            (Some((f, m, p)), 1) => (f.clone(), m.clone(), p.clone()),
            // a sibling line: must replace the held position although length and last move are the same
            (Some((f, m, old_root)), 2) if sibling_history(f, m).is_some() => {
                let sib = sibling_history(f, m).unwrap();
                let new_root = root_of(f, &sib).unwrap_or_else(|_| old_root.clone());
                steps.push(Step::Position { fen: f.clone(), moves: sib.clone() });
                // ask for a move that exists only in the new position: an engine still holding the old one cannot answer it
                let old_legal = old_root.legal_moves();
                let only_new: Vec<Mv> = new_root.legal_moves().into_iter().filter(|x| !old_legal.contains(x)).collect();
                let mut g = GoSpec::depth(1 + (c.a % 2) as u64);
                if !only_new.is_empty() {
                    g.searchmoves.push(only_new[c.b as usize % only_new.len()].uci());
                }
                steps.push(Step::Go(g));
                prev = Some((f.clone(), sib, new_root));
                continue;
            }
            _ => {
                let (fen, moves, root, _) = build_root(c);
                steps.push(Step::Position { fen: fen.clone(), moves: moves.clone() });
                (fen, moves, root)
            }
        };
        prev = Some((fen, moves, root.clone()));
        match c.stray {
            0 => steps.push(Step::StrayStop),
            1 => steps.push(Step::StrayPonderHit),
            2 => steps.push(Step::IsReady),
            4 => steps.push(Step::Debug(true)),
            5 => steps.push(Step::Debug(c.a % 3 == 0)),
            _ => {}
        }
        steps.push(Step::Go(build_go(c, &root)));
        if c.stray == 3 {
            steps.push(Step::StrayStop);
        }
    }
    SessionCase { steps, via_binary: r.via_binary == 0 }
}

pub fn root_of(fen: &str, moves: &[String]) -> Result<Pos, String> {
    let mut p = Pos::from_fen(fen).ok_or_else(|| format!("{HARNESS_PREFIX} bad session fen {fen}"))?;
    for u in moves {
        let m = Mv::parse(u).filter(|m| p.is_legal(*m)).ok_or_else(|| format!("{HARNESS_PREFIX} session history move {u} illegal in {}", p.fen()))?;
        p = p.apply(m);
    }
    Ok(p)
}

pub fn go_class(g: &GoSpec) -> &'static str {
    if !g.searchmoves.is_empty() {
        "searchmoves"
    } else if g.stop_after_ms.is_some() && g.depth.is_some() {
        "depth_cut_by_stop"
    } else if g.stop_after_ms.is_some() || g.is_unbounded() {
        "unbounded_then_stop"
    } else if g.movetime.is_some() {
        if g.movetime == Some(0) {
            "movetime_0"
        } else {
            "movetime"
        }
    } else if g.wtime.is_some() {
        match (g.winc, g.binc) {
            (None, None) => "clock_no_increment_field",
            (Some(0), Some(0)) | (Some(0), None) => "clock_zero_increment",
            _ => "clock_with_increment",
        }
    } else {
        "depth"
    }
}

/// judge one answered search
pub fn judge_answer(root: &Pos, hist_len: usize, g: &GoSpec, best: Option<String>, ctx: &mut Ctx) -> Result<(), String> {
    let legal: Vec<String> = root.legal_moves().iter().map(Mv::uci).collect();
    let what = format!("root {} (after {hist_len} history moves), `{}`{}", root.fen(), g.to_line(), g.stop_after_ms.map_or(String::new(), |ms| format!(" + stop after {ms} ms")));
    match (&best, legal.is_empty()) {
        (None, true) => {}
        (Some(m), true) => return Err(format!("{what}: bestmove {m} although the root has no legal move")),
        (None, false) => return Err(format!("{what}: bestmove 0000 (null move) although the root has {} legal moves", legal.len())),
        (Some(m), false) => {
            if !legal.contains(m) {
                return Err(format!("{what}: bestmove {m} is not legal in the root"));
            }
            if !g.searchmoves.is_empty() && !g.searchmoves.contains(m) {
                return Err(format!("{what}: bestmove {m} is not one of the searchmoves"));
            }
        }
    }
    let cls = go_class(g);
    ctx.class(cls);
    if g.searchmoves.iter().any(|m| m.len() == 5 && !m.ends_with('q')) {
        ctx.class("searchmoves_under_promotion");
    }
    ctx.class(match legal.len() {
        0 => "root_without_legal_moves",
        1 => "root_single_reply",
        _ => "root_many_moves",
    });
    if cls != "depth" {
        ctx.nontrivial((root.fen4(), cls));
    }
    Ok(())
}

pub fn check_session(case: &SessionCase, ctx: &mut Ctx) -> Result<(), String> {
    let mut s = Session::new();
    let mut root = Pos::start();
    let mut hist_len = 0;
    let mut gos = 0;
    let mut trace: Vec<String> = Vec::new();
    let mut searched: Vec<String> = Vec::new();
    let mut last_position: Option<(String, Vec<String>)> = None;
    for step in &case.steps {
        match step {
            Step::NewGame => {
                s.new_game();
                trace.push("ucinewgame".into());
            }
            Step::Position { fen, moves } => {
                if let Some((pf, pm)) = &last_position {
                    if pf == fen && pm.len() == moves.len() && pm != moves && pm.last() == moves.last() {
                        ctx.class("sibling_line_same_length_same_last_move");
                        ctx.nontrivial((fen.clone(), moves.clone(), "sibling"));
                    }
                }
                last_position = Some((fen.clone(), moves.clone()));
                root = root_of(fen, moves)?;
                hist_len = moves.len();
                s.position(fen, moves)?;
                trace.push(format!("position fen {fen} moves {}", moves.join(" ")));
                if moves.len() >= 8 && hist_len > 0 {
                    let g = gen::Game { start: fen.clone(), moves: moves.clone() }.to_gamep()?;
                    let k = root.key();
                    if g.positions.iter().filter(|p| p.key() == k).count() >= 3 {
                        ctx.class("root_occurred_three_times");
                        ctx.nontrivial((root.fen4(), "threefold_root"));
                    }
                }
            }
            Step::StrayStop => s.stop(),
            Step::StrayPonderHit => s.send(inkayaku_uci::UciCommand::PonderHit),
            Step::IsReady => s.send(inkayaku_uci::UciCommand::IsReady),
            Step::Debug(on) => {
                s.send(inkayaku_uci::UciCommand::SetDebug { debug: *on });
                ctx.class(if *on { "debug_on" } else { "debug_off" });
            }
            Step::Go(g) => {
                gos += 1;
                trace.push(g.to_line());
                if searched.contains(&root.fen4()) {
                    ctx.class("root_searched_again_on_this_instance");
                }
                searched.push(root.fen4());
                if g.ponder {
                    ctx.class("go_ponder_then_ponderhit");
                }
                match s.search(g) {
                    Wait::Done(out) => judge_answer(&root, hist_len, g, out.best_uci(), ctx).map_err(|e| format!("{e}; session so far: {trace:?}"))?,
                    Wait::ThreadDied(_, d) if crate::engsess::is_k1_depth_form(root_ply(&root), d) => {
                        // known finding K1 (depth form): not a new violation; the instance is gone, the session ends here
                        ctx.known.insert(crate::engsess::K1_DEPTH_FORM.to_string());
                        ctx.class("k1_depth_form_met");
                        return Ok(());
                    }
                    Wait::ThreadDied(why, _) => return Err(format!("no bestmove for `{}` at root {}: {why}; session so far: {trace:?}", g.to_line(), root.fen())),
                    Wait::Timeout => return Err(format!("{HARNESS_PREFIX} watchdog: no bestmove within 90 s for `{}` at root {} (inconclusive)", g.to_line(), root.fen())),
                }
                ctx.evals(1);
            }
        }
    }
    let stray = s.stray_bestmoves(std::time::Duration::from_millis(15));
    if stray > 0 {
        return Err(format!("{stray} extra bestmove message(s) after {gos} go commands; session: {trace:?}"));
    }
    if s.thread_finished() {
        return Err(format!("search thread is no longer alive after the session {trace:?}"));
    }
    s.quit().map_err(|e| format!("{e}; session: {trace:?}"))?;
    if case.via_binary {
        check_session_binary(case, ctx)?;
    }
    ctx.sample(|| serde_json::json!({"session": trace}));
    Ok(())
}

/// the same session over stdin/stdout of the real binary, counting and judging `bestmove` lines
fn check_session_binary(case: &SessionCase, ctx: &mut Ctx) -> Result<(), String> {
    let mut b = BinSession::new()?;
    let mut root = Pos::start();
    let mut hist_len = 0;
    for step in &case.steps {
        match step {
            Step::NewGame => b.line("ucinewgame")?,
            Step::Position { fen, moves } => {
                root = root_of(fen, moves)?;
                hist_len = moves.len();
                let mut l = format!("position fen {fen}");
                if !moves.is_empty() {
                    l.push_str(" moves ");
                    l.push_str(&moves.join(" "));
                }
                b.line(&l)?;
            }
            Step::StrayStop => b.line("stop")?,
            Step::StrayPonderHit => b.line("ponderhit")?,
            Step::IsReady => b.line("isready")?,
            Step::Debug(on) => b.line(if *on { "debug on" } else { "debug off" })?,
            Step::Go(g) => {
                b.line(&g.to_line())?;
                if let Some(ms) = g.ponderhit_after_ms {
                    std::thread::sleep(std::time::Duration::from_millis(ms));
                    b.line("ponderhit")?;
                }
                if let Some(ms) = g.stop_after_ms {
                    std::thread::sleep(std::time::Duration::from_millis(ms));
                    b.line("stop")?;
                } else if g.is_unbounded() {
                    std::thread::sleep(std::time::Duration::from_millis(30));
                    b.line("stop")?;
                }
                match b.read_until("bestmove") {
                    Ok(lines) => {
                        let last = lines.last().cloned().unwrap_or_default();
                        let tok: Vec<&str> = last.split(' ').collect();
                        let best = tok.get(1).filter(|m| **m != "0000").map(|m| m.to_string());
                        judge_answer(&root, hist_len, g, best, ctx).map_err(|e| format!("(binary) {e}"))?;
                        ctx.class("via_binary");
                    }
                    Err(Wait::ThreadDied(_, d)) if crate::engsess::is_k1_depth_form(root_ply(&root), d) => {
                        ctx.known.insert(crate::engsess::K1_DEPTH_FORM.to_string());
                        return Ok(());
                    }
                    Err(Wait::ThreadDied(why, _)) => return Err(format!("(binary) no bestmove for `{}` at root {}: {why}", g.to_line(), root.fen())),
                    Err(_) => return Err(format!("{HARNESS_PREFIX} watchdog: binary silent for 90 s at root {}", root.fen())),
                }
            }
        }
    }
    let rest = b.quit().map_err(|e| format!("(binary) {e}"))?;
    if rest.iter().any(|l| l.starts_with("bestmove")) {
        return Err(format!("(binary) extra bestmove line after the last search: {rest:?}"));
    }
    Ok(())
}

/// Known finding K1: full-move numbers >= 2501 index past the 5000-entry repetition history.
fn probe_k1(cfg: &PartCfg) -> PartOutcome {
    let mut out = PartOutcome { part: cfg.part.to_string(), evaluations: 1, ..PartOutcome::default() };
    let mut s = Session::new();
    let fen = "4k3/8/8/8/8/8/4P3/4K3 w - - 0 2600";
    if s.position(fen, &[]).is_err() {
        return out;
    }
    match s.search(&GoSpec::depth(2)) {
        Wait::Done(o) if o.best.is_some() => out.notes.push("K1 probe: fullmove 2600 answered normally (finding no longer reproduces)".into()),
        Wait::Done(_) => out.known_findings.push("fullmove>2500 bestmove-0000".into()),
        Wait::ThreadDied(_, _) => out.known_findings.push("fullmove>2500 history-index-out-of-range (search thread dies, no bestmove)".into()),
        Wait::Timeout => out.notes.push("K1 probe inconclusive".into()),
    }
    out.samples.push(serde_json::json!({"k1_probe": fen}));
    out
}

/// a different legal line of the same length from the same start that ends with the same move text
pub fn sibling_history(fen: &str, moves: &[String]) -> Option<Vec<String>> {
    if moves.len() < 2 {
        return None;
    }
    let g = gen::Game { start: fen.to_string(), moves: moves.to_vec() }.to_gamep().ok()?;
    for i in 0..moves.len() - 1 {
        for alt in g.positions[i].legal_moves() {
            if alt == g.moves[i] {
                continue;
            }
            let mut p = g.positions[i].apply(alt);
            let mut ok = true;
            for m in &g.moves[i + 1..] {
                if p.is_legal(*m) {
                    p = p.apply(*m);
                } else {
                    ok = false;
                    break;
                }
            }
            if ok && p.key() != g.last().key() {
                let mut v: Vec<String> = moves.to_vec();
                v[i] = alt.uci();
                return Some(v);
            }
        }
    }
    None
}

/// index of the root in the engine's repetition history
pub fn root_ply(root: &Pos) -> u64 {
    2 * (root.full.saturating_sub(1)) + if root.turn == crate::refmodel::Color::Black { 1 } else { 0 }
}

// ------------------------------------------------------------------------------------------------
// the normal flow of a game: the GUI appends the engine's own move and the opponent's reply
// (often the announced ponder move) to the move list and asks again, on ONE engine instance

#[derive(Debug, Clone, Serialize, Deserialize)]
pub struct SelfPlayCase {
    pub fen: String,
    pub history: Vec<String>,
    /// per turn: limit kind, reply choice, "the opponent plays the announced ponder move"
    pub plan: Vec<(u8, u16, bool)>,
}

fn self_play_case(r: &gen::RawPlayout, plan: &[(u8, u16, bool)], fen_root: bool) -> SelfPlayCase {
    let mut h = r.clone();
    if !fen_root {
        h.seed = 0;
        h.flip = false;
    }
    let g = gen::play(&h, if fen_root { ClockDomain::Engine } else { ClockDomain::Keep });
    let mut start = g.start.clone();
    start.half = start.half.min(60);
    // a long think is usually followed by the expected reply and an instant move (the clock is nearly out)
    let mut plan = plan.to_vec();
    for i in 1..plan.len() {
        if plan[i - 1].0 >= 18 && plan[i].1 % 4 != 0 {
            plan[i - 1].2 = true;
            plan[i].0 = 14 + (plan[i].1 % 2) as u8;
        }
    }
    SelfPlayCase { fen: start.fen(), history: g.moves.iter().map(Mv::uci).collect(), plan }
}

pub fn check_self_play(c: &SelfPlayCase, ctx: &mut Ctx) -> Result<(), String> {
    let mut s = Session::new();
    let mut hist = c.history.clone();
    let mut trace: Vec<String> = Vec::new();
    let mut followed_ponder = 0;
    for (turn, &(kind, choice, follow)) in c.plan.iter().enumerate() {
        let root = root_of(&c.fen, &hist)?;
        if root.legal_moves().is_empty() || root.half >= 90 {
            break;
        }
        let g = match kind {
            0 | 1 => GoSpec::depth(1),
            2..=4 => GoSpec::depth(2),
            5 | 6 => GoSpec::depth(3),
            7..=9 => GoSpec { movetime: Some((choice % 30) as u64), ..GoSpec::default() },
            10..=13 => GoSpec { wtime: Some(2000), btime: Some(2000), winc: Some((choice % 40) as u64), binc: Some((choice % 40) as u64), ..GoSpec::default() },
            // no time left at all
            14 => GoSpec { movetime: Some(0), ..GoSpec::default() },
            15 => GoSpec { wtime: Some(1), btime: Some(1), ..GoSpec::default() },
            // longer thinks: iterations of 100,000 nodes and more are completed
            16 | 17 => GoSpec { movetime: Some(120 + (choice % 200) as u64), ..GoSpec::default() },
            18 => GoSpec { movetime: Some(900 + (choice % 900) as u64), ..GoSpec::default() },
            _ => GoSpec::depth(6),
        };
        if kind >= 18 {
            ctx.class("long_think");
        }
        s.position(&c.fen, &hist)?;
        trace.push(format!("position fen {} moves {}", c.fen, hist.join(" ")));
        trace.push(g.to_line());
        let out = match s.search(&g) {
            Wait::Done(o) => o,
            Wait::ThreadDied(_, d) if crate::engsess::is_k1_depth_form(root_ply(&root), d) => {
                ctx.known.insert(crate::engsess::K1_DEPTH_FORM.to_string());
                return Ok(());
            }
            Wait::ThreadDied(why, _) => return Err(format!("turn {}: no bestmove for `{}` at root {}: {why}; game so far: {trace:?}", turn + 1, g.to_line(), root.fen())),
            Wait::Timeout => return Err(format!("{HARNESS_PREFIX} watchdog in self play at {}", root.fen())),
        };
        judge_answer(&root, hist.len(), &g, out.best_uci(), ctx).map_err(|e| format!("turn {}: {e}; game so far: {trace:?}", turn + 1))?;
        ctx.evals(1);
        let best = out.best_uci().ok_or_else(|| "HARNESS: judged answer without move".to_string())?;
        hist.push(best.clone());
        let after = root_of(&c.fen, &hist)?;
        let replies = after.legal_moves();
        if replies.is_empty() {
            break;
        }
        // the opponent's reply: the ponder move the engine announced (if it is legal), or some other move
        let ponder = out.ponder.as_ref().map(|m| m.to_string()).filter(|m| replies.iter().any(|r| r.uci() == *m));
        let reply = match (follow, ponder) {
            (true, Some(p)) => {
                followed_ponder += 1;
                p
            }
            _ => replies[gen::pick(choice as u32, 16, replies.len())].uci(),
        };
        hist.push(reply);
    }
    if s.thread_finished() {
        return Err(format!("search thread is no longer alive after the game {trace:?}"));
    }
    s.quit().map_err(|e| format!("{e}; game: {trace:?}"))?;
    ctx.class("games");
    if followed_ponder > 0 {
        ctx.class("opponent_followed_the_ponder_move");
        ctx.nontrivial((c.fen.clone(), c.history.clone(), c.plan.clone()));
    }
    ctx.sample(|| serde_json::json!({"fen": c.fen, "initial_history": c.history, "turns": c.plan.len(), "final_history": hist}));
    Ok(())
}

// ------------------------------------------------------------------------------------------------
// one instance used for thousands of searches (a bot playing bullet for hours): lifetime counters, tables that
// fill up, whatever else accumulates must never cost an answer

#[derive(Debug, Clone, Serialize, Deserialize)]
pub struct LongCase {
    pub fen: String,
    pub line: Vec<String>,
    pub searches: u32,
    pub salt: u32,
}

fn long_case(r: &gen::RawPlayout, salt: u32) -> LongCase {
    let mut h = r.clone();
    h.flip = false;
    let g = gen::play(&h, ClockDomain::EngineQuiet);
    LongCase { fen: g.start.fen(), line: g.moves.iter().map(Mv::uci).collect(), searches: 12_000, salt }
}

pub fn check_long_session(c: &LongCase, ctx: &mut Ctx) -> Result<(), String> {
    let mut s = Session::new();
    // roots: every prefix of the line, visited round robin
    let mut roots: Vec<(Vec<String>, Pos)> = Vec::new();
    for k in 0..=c.line.len() {
        let hist = c.line[..k].to_vec();
        let root = root_of(&c.fen, &hist)?;
        if root.legal_moves().is_empty() || root.half >= 80 {
            break;
        }
        roots.push((hist, root));
    }
    if roots.is_empty() {
        return Ok(());
    }
    let mut x = c.salt | 1;
    let mut done = 0u32;
    let mut nodes = 0u64;
    for i in 0..c.searches {
        x ^= x << 13;
        x ^= x >> 17;
        x ^= x << 5;
        let (hist, root) = &roots[(i as usize * 7 + (x as usize % 3)) % roots.len()];
        // cheap limits only: zero / tiny budgets and depth 1..2
        let g = match x % 8 {
            0..=3 => GoSpec { movetime: Some(0), ..GoSpec::default() },
            4 => GoSpec { wtime: Some(1), btime: Some(1), ..GoSpec::default() },
            5 if x & 0x100 == 0 => GoSpec { wtime: Some(50), btime: Some(50), winc: Some(0), binc: Some(0), ..GoSpec::default() },
            5 => GoSpec { wtime: Some(40), btime: Some(40), movestogo: Some((x >> 9) as u64 % 4), ..GoSpec::default() },
            6 => GoSpec::depth(1),
            _ => GoSpec::depth(2),
        };
        // half of the sessions are one single game without end, the others start a new game now and then
        if c.salt % 2 == 0 && x % 1024 == 9 {
            s.new_game();
            ctx.class("ucinewgame_inside_long_session");
        }
        s.position(&c.fen, hist)?;
        let out = match s.search(&g) {
            Wait::Done(o) => o,
            Wait::ThreadDied(why, _) => return Err(format!("search {} of one long session (position fen {} moves {hist:?}; `{}`): no bestmove: {why}", i + 1, c.fen, g.to_line())),
            Wait::Timeout => return Err(format!("{HARNESS_PREFIX} watchdog in long session at search {}", i + 1)),
        };
        judge_answer(root, hist.len(), &g, out.best_uci(), ctx).map_err(|e| format!("search {} of one long session on one instance ({} negamax+quiescence nodes reported so far): {e}", i + 1, nodes))?;
        nodes += out.infos.iter().filter_map(|i| i.nodes).max().unwrap_or(0);
        done += 1;
    }
    if s.thread_finished() {
        return Err(format!("search thread is no longer alive after {done} searches"));
    }
    s.quit()?;
    ctx.evals(done as u64);
    ctx.class("long_sessions");
    ctx.class(&format!("reported_nodes_ge_{}", if nodes >= 1_000_000 { "1M" } else if nodes >= 200_000 { "200k" } else if nodes >= 100_000 { "100k" } else { "0" }));
    ctx.nontrivial((c.fen.clone(), c.line.clone(), c.salt));
    ctx.sample(|| serde_json::json!({"fen": c.fen, "line_plies": c.line.len(), "searches": done, "nodes_reported": nodes}));
    Ok(())
}

// ------------------------------------------------------------------------------------------------
// what an earlier search leaves behind (principal variation, killer moves, table entries) must never make a move
// playable that is illegal in the next position: the next position is BUILT so that the move the engine just
// preferred is still pseudo-legal, with identical clocks and capture, but illegal (pinned piece / king in check)

#[derive(Debug, Clone, Serialize, Deserialize)]
pub struct AdvCase {
    pub fen: String,
    pub first_depth: u32,
    pub second_depth: u32,
    pub pick: u16,
}

/// positions that differ from `p` by one added enemy piece, in which `m` is still pseudo-legal but no longer legal
fn make_illegal(p: &Pos, m: Mv) -> Vec<Pos> {
    let enemy = p.turn.other();
    let mut out = Vec::new();
    for e in 0..64u8 {
        if p.board[e as usize].is_some() || e == m.from || e == m.to || Some(e) == p.ep {
            continue;
        }
        for kind in [Kind::Queen, Kind::Rook, Kind::Bishop, Kind::Knight, Kind::Pawn] {
            if kind == Kind::Pawn && (e < 8 || e >= 56) {
                continue;
            }
            let mut q = p.clone();
            q.board[e as usize] = Some((enemy, kind));
            if !q.is_sane() || !q.pseudo_moves().contains(&m) || q.is_legal(m) || q.legal_moves().is_empty() {
                continue;
            }
            out.push(q);
        }
    }
    out
}

pub fn check_adversarial(c: &AdvCase, ctx: &mut Ctx) -> Result<(), String> {
    let p = Pos::from_fen(&c.fen).ok_or_else(|| format!("{HARNESS_PREFIX} bad fen {}", c.fen))?;
    if p.legal_moves().is_empty() {
        return Ok(());
    }
    let mut s = Session::new();
    s.position(&c.fen, &[])?;
    let g1 = GoSpec::depth(c.first_depth as u64);
    let out = match s.search(&g1) {
        Wait::Done(o) => o,
        Wait::ThreadDied(why, _) => return Err(format!("no bestmove for {} `{}`: {why}", c.fen, g1.to_line())),
        Wait::Timeout => return Err(format!("{HARNESS_PREFIX} watchdog at {}", c.fen)),
    };
    judge_answer(&p, 0, &g1, out.best_uci(), ctx)?;
    let best = out.best_uci().and_then(|m| Mv::parse(&m)).ok_or_else(|| format!("{HARNESS_PREFIX} unreadable bestmove"))?;
    let cands = make_illegal(&p, best);
    if cands.is_empty() {
        ctx.class("no_variant_found");
        s.quit()?;
        return Ok(());
    }
    let q = &cands[gen::pick(c.pick as u32, 16, cands.len())];
    s.position(&q.fen(), &[])?;
    let g2 = GoSpec::depth(c.second_depth as u64);
    let what = format!("after `position fen {}`, `{}` (bestmove {best}) the position {} is searched, in which {best} is pseudo-legal but illegal", c.fen, g1.to_line(), q.fen());
    let out2 = match s.search(&g2) {
        Wait::Done(o) => o,
        Wait::ThreadDied(why, _) => return Err(format!("{what}: no bestmove: {why}")),
        Wait::Timeout => return Err(format!("{HARNESS_PREFIX} watchdog at {}", q.fen())),
    };
    judge_answer(q, 0, &g2, out2.best_uci(), ctx).map_err(|e| format!("{what}: {e}"))?;
    // every reported pv of the second search is a legal line
    for i in &out2.infos {
        if let Some(pv) = &i.principal_variation {
            let mut r = q.clone();
            for m in pv {
                let mv = Mv::parse(&m.to_string()).filter(|x| r.is_legal(*x)).ok_or_else(|| format!("{what}: reported pv {:?} is not a legal line", pv.iter().map(|m| m.to_string()).collect::<Vec<_>>()))?;
                r = r.apply(mv);
            }
        }
    }
    if s.thread_finished() {
        return Err(format!("{what}: the search thread is gone afterwards"));
    }
    s.quit().map_err(|e| format!("{what}: {e}"))?;
    ctx.evals(1);
    ctx.class(if q.in_check(q.turn) { "mover_now_in_check" } else { "piece_now_pinned" });
    ctx.nontrivial((c.fen.clone(), q.fen(), c.first_depth, c.second_depth));
    ctx.sample(|| serde_json::json!({"first": c.fen, "first_depth": c.first_depth, "preferred": best.uci(), "second": q.fen(), "second_depth": c.second_depth}));
    Ok(())
}

// ------------------------------------------------------------------------------------------------
// roots with very many legal moves (several queens / rooks of the mover on an open board; random play never
// produces them): the first iteration alone is hundreds of nodes. Budgets from zero upwards.

#[derive(Debug, Clone, Serialize, Deserialize)]
pub struct CrowdedCase {
    pub fen: String,
    pub go: GoSpec,
}

fn crowded_case(pieces: &[(u8, u8)], x: u32, flip: bool) -> CrowdedCase {
    use crate::refmodel::{sq, Color};
    let mut p = Pos::empty();
    // the defender's king sits in a shelter no line piece can look into
    p.board[sq(7, 7) as usize] = Some((Color::Black, Kind::King));
    p.board[sq(7, 6) as usize] = Some((Color::Black, Kind::Pawn));
    p.board[sq(6, 6) as usize] = Some((Color::Black, Kind::Pawn));
    p.board[sq(6, 7) as usize] = Some((Color::Black, Kind::Knight));
    p.board[sq(0, 0) as usize] = Some((Color::White, Kind::King));
    for &(s, k) in pieces {
        let s = s as usize;
        if p.board[s].is_some() {
            continue;
        }
        let kind = [Kind::Queen, Kind::Queen, Kind::Queen, Kind::Queen, Kind::Rook, Kind::Rook, Kind::Bishop, Kind::Knight][k as usize];
        p.board[s] = Some((Color::White, kind));
        if !p.is_sane() {
            p.board[s] = None;
        }
    }
    p.turn = Color::White;
    p.half = (x % 50) as u64;
    p.full = 30 + (x / 64 % 60) as u64;
    let p = if flip { p.flip() } else { p };
    let go = match x / 4096 % 8 {
        0 | 1 => GoSpec { movetime: Some(0), ..GoSpec::default() },
        2 => GoSpec { movetime: Some((x / 32768 % 6) as u64), ..GoSpec::default() },
        3 => GoSpec { wtime: Some(100), btime: Some(100), ..GoSpec::default() },
        4 => GoSpec { wtime: Some((x / 32768 % 200) as u64), btime: Some((x / 32768 % 200) as u64), winc: Some(0), binc: Some(0), ..GoSpec::default() },
        5 => GoSpec { wtime: Some(1), btime: Some(1), movestogo: Some((x / 32768 % 3) as u64), ..GoSpec::default() },
        6 => GoSpec::depth(1),
        _ => GoSpec { movetime: Some(20 + (x / 32768 % 60) as u64), ..GoSpec::default() },
    };
    CrowdedCase { fen: p.fen(), go }
}

pub fn check_crowded(c: &CrowdedCase, ctx: &mut Ctx) -> Result<(), String> {
    let p = Pos::from_fen(&c.fen).ok_or_else(|| format!("{HARNESS_PREFIX} bad fen {}", c.fen))?;
    if !p.is_sane() {
        return Err(format!("{HARNESS_PREFIX} insane crowded root {}", c.fen));
    }
    let n = p.legal_moves().len();
    let mut s = Session::new();
    s.position(&c.fen, &[])?;
    let out = match s.search(&c.go) {
        Wait::Done(o) => o,
        Wait::ThreadDied(why, _) => return Err(format!("no bestmove for {} ({n} legal moves) `{}`: {why}", c.fen, c.go.to_line())),
        Wait::Timeout => return Err(format!("{HARNESS_PREFIX} watchdog at {}", c.fen)),
    };
    judge_answer(&p, 0, &c.go, out.best_uci(), ctx).map_err(|e| format!("{e} (the root has {n} legal moves)"))?;
    s.quit()?;
    ctx.evals(1);
    ctx.class(match n {
        0..=59 => "legal_moves_lt_60",
        60..=99 => "legal_moves_60_to_99",
        100..=149 => "legal_moves_100_to_149",
        _ => "legal_moves_ge_150",
    });
    if n >= 100 {
        ctx.nontrivial((c.fen.clone(), c.go.to_line()));
    }
    ctx.sample(|| serde_json::json!({"fen": c.fen, "legal_moves": n, "go": c.go.to_line()}));
    Ok(())
}
