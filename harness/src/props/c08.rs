//! C08 — shallow search scores are exact minimax values; forced mates are found and real.

use proptest::prelude::*;
use serde::{Deserialize, Serialize};

use crate::eng;
use crate::engsess::{score_text, GoSpec, Session, Wait};
use crate::gen::{self, ClockDomain};
use crate::refmodel::{Mv, Pos};
use crate::refsearch;
use crate::run::{replay_case, run_part, Ctx, Part, Property, HARNESS_PREFIX};

pub fn property() -> Property {
    Property {
        id: "C08",
        level: "exploration",
        rule: "(exact) `position fen F` (no history, half-move clock <= 40) + `go depth d`, d in 1..3, preceded by 0..3 other searches on the same engine instance; oracle: the score of the final depth-d info equals the value of a plain alpha-beta reference without table / killers / PV / deepening (leaf rule as stated: move-less = mate or stalemate, otherwise exhaustive capture/promotion resolution with stand-pat), and the announced best move attains that value; (mates) endgame / mating-net positions classified by an exhaustive forced-mate solver (N <= 3): depth 2N-1 must report `mate N` and the move played must keep a forced mate in N-1; conversely every positive `mate N` reported at depth 1/3/5 must come with a pv that is a legal line of 2N-1 plies ending in checkmate; (selfcheck) the fast reference is itself compared with a pruning-free minimax on the independent mailbox model. Non-trivial = distinct (FEN, depth) whose root has >= 2 legal moves with different reference values, or a mate-in-N root",
        assumptions: &["the reference search shares move generation (judged by C01-C05) and the static evaluation (hook; judged by C11) with the code under test; pruning, ordering, table, deepening and score conversion are independent", "depth <= 3 keeps every table hit at the exact draft (DESIGN C08)"],
        parts: vec![
            Part {
                name: "exact",
                quick: 4_000,
                thorough: 60_000,
                single_shard: false, supplementary: false,
                run: |cfg| run_part(cfg, (prop_oneof![3 => gen::raw_pos(70), 2 => gen::raw_pos_endgames(), 2 => gen::raw_synth_profiles(8, 9).prop_map(gen::RawPos::Synth)], 1..=3u32, proptest::collection::vec((gen::raw_pos(40), 1..=4u32, 0..10u8), 0..=3)), |(r, d, w)| exact_case(r, *d, w), check_exact),
                replay: |v| replay_case::<ExactCase, _>(v, check_exact),
            },
            Part {
                name: "searchmoves_exact",
                quick: 4_000,
                thorough: 60_000,
                single_shard: false, supplementary: false,
                run: |cfg| run_part(cfg, (prop_oneof![2 => gen::raw_pos_endgames(), 1 => gen::raw_pos(60), 1 => gen::raw_synth_profiles(8, 9).prop_map(gen::RawPos::Synth)], 1..=2u32, any::<u16>()), |(r, d, x)| sm_case(r, *d, *x), check_searchmoves),
                replay: |v| replay_case::<SmCase, _>(v, check_searchmoves),
            },
            Part {
                name: "exact_deep_no_table",
                quick: 1_600,
                thorough: 40_000,
                single_shard: false, supplementary: false,
                run: |cfg| run_part(cfg, (prop_oneof![3 => gen::raw_pos_endgames(), 1 => gen::raw_pos(70), 1 => gen::raw_synth_profiles(8, 9).prop_map(gen::RawPos::Synth)], gen::raw_playout(6), 4..=5u32, any::<u16>()), |(r, h, d, x)| deep_case(r, h, *d, *x), |c, ctx| check_deep(c, ctx)),
                replay: |v| replay_case::<DeepCase, _>(v, |c, ctx| check_deep(c, ctx)),
            },
            Part {
                name: "mates",
                quick: 24_000,
                thorough: 160_000,
                single_shard: false, supplementary: false,
                run: |cfg| run_part(cfg, (gen::raw_pos_endgames(), 0..3u8), |(r, k)| MateCase { fen: gen::position(r, ClockDomain::EngineQuiet).fen(), probe_depth: [1, 3, 5][*k as usize] }, check_mates),
                replay: |v| replay_case::<MateCase, _>(v, check_mates),
            },
            Part {
                name: "selfcheck",
                quick: 300,
                thorough: 6_000,
                single_shard: false, supplementary: true,
                run: |cfg| run_part(cfg, (gen::raw_pos_endgames(), 1..=2u32), |(r, d)| SelfCase { fen: gen::position(r, ClockDomain::EngineQuiet).fen(), depth: *d }, check_self),
                replay: |v| replay_case::<SelfCase, _>(v, check_self),
            },
        ],
    }
}

#[derive(Debug, Clone, Serialize, Deserialize)]
pub struct ExactCase {
    pub fen: String,
    pub depth: u32,
    /// earlier searches on the same engine instance: (fen, move history, depth)
    pub warmup: Vec<(String, Vec<String>, u32)>,
}

fn exact_case(r: &gen::RawPos, depth: u32, w: &[(gen::RawPos, u32, u8)]) -> ExactCase {
    let mut p = gen::position(r, ClockDomain::EngineQuiet);
    let mut warmup: Vec<(String, Vec<String>, u32)> = Vec::new();
    for (r2, d, sel) in w {
        match sel {
            // the same position searched before (deeper or shallower): state carried between go commands
            0..=2 => warmup.push((p.fen(), vec![], *d)),
            // a position one ply further down
            3 => warmup.push((p.legal_moves().first().map(|&m| p.apply(m)).unwrap_or_else(|| p.clone()).fen(), vec![], *d)),
            // a GAME HISTORY through the target position (shuffle a b a' b' a b), after which the target is given
            // as a bare FEN whose clocks place it right behind that history: nothing of the old history may count
            4 | 5 => {
                p.ep = None;
                if let Some([a, b, a2, b2]) = crate::props::c10::shuffle_quad_pub(&p, *d as u16) {
                    let hist: Vec<String> = [a, b, a2, b2, a, b].iter().map(Mv::uci).collect();
                    warmup.push((p.fen(), hist, *d));
                    p.half += 8;
                    p.full += 4;
                } else {
                    warmup.push((p.fen(), vec![], *d));
                }
            }
            // the same placement with OTHER clocks (nothing remembered about a placement may carry clock-dependent
            // facts over: the fifty-move rule at the horizon, the mate distance)
            6 | 7 => {
                let mut q = p.clone();
                if *sel == 6 {
                    q.half = 96 + (*d as u64 % 4);
                } else {
                    q.full += 37 + *d as u64;
                    q.half = (q.half + 9).min(60);
                }
                warmup.push((q.fen(), vec![], *d));
            }
            _ => warmup.push((gen::position(r2, ClockDomain::EngineQuiet).fen(), vec![], *d)),
        }
    }
    ExactCase { fen: p.fen(), depth, warmup }
}

pub fn run_search(s: &mut Session, fen: &str, moves: &[String], spec: &GoSpec) -> Result<crate::engsess::SearchOutput, String> {
    s.position(fen, moves)?;
    match s.search(spec) {
        Wait::Done(o) => Ok(o),
        Wait::ThreadDied(why, _) => Err(format!("no answer to `{}` for {fen}: {why}", spec.to_line())),
        Wait::Timeout => Err(format!("{HARNESS_PREFIX} watchdog: no bestmove within 90 s for {fen}")),
    }
}

pub fn check_exact(c: &ExactCase, ctx: &mut Ctx) -> Result<(), String> {
    let p = Pos::from_fen(&c.fen).ok_or_else(|| format!("{HARNESS_PREFIX} bad fen {}", c.fen))?;
    let mut s = Session::new();
    for (f, h, d) in &c.warmup {
        run_search(&mut s, f, h, &GoSpec::depth(*d as u64))?;
    }
    let out = run_search(&mut s, &c.fen, &[], &GoSpec::depth(c.depth as u64))?;
    s.quit()?;
    let mut b = eng::board_from_pos(&p);
    let legal = refsearch::legal(&mut b);
    let what = format!("{} depth {} (after {} warm-up searches)", c.fen, c.depth, c.warmup.len());
    if legal.is_empty() {
        if out.best.is_some() {
            return Err(format!("{what}: bestmove {:?} from a root without legal moves", out.best_uci()));
        }
        ctx.class("terminal_root");
        return Ok(());
    }
    let (want, nodes) = refsearch::root_value(&mut b, c.depth);
    let want_text = refsearch::score_text(want, &b);
    let info = out.last_scored().ok_or_else(|| format!("{what}: no info line carries a score"))?;
    if info.depth != Some(c.depth) {
        return Err(format!("{what}: the last scored info is for depth {:?}", info.depth));
    }
    let got_text = score_text(&info.score.unwrap());
    if got_text != want_text {
        return Err(format!("{what}: engine reports score {got_text}, exact minimax value is {want_text}"));
    }
    // the announced move must attain the value
    let best = out.best_uci().ok_or_else(|| format!("{what}: bestmove 0000"))?;
    let values = refsearch::root_move_values(&mut b, c.depth);
    match values.iter().find(|(u, _)| *u == best) {
        None => return Err(format!("{what}: bestmove {best} is not a legal move")),
        Some((_, v)) if *v != want => return Err(format!("{what}: bestmove {best} is worth {} but the position is worth {want_text} (reached by {:?})", refsearch::score_text(*v, &b), values.iter().filter(|(_, x)| *x == want).map(|(u, _)| u).collect::<Vec<_>>())),
        _ => {}
    }
    // the pv must start with the best move
    if let Some(pv) = &info.principal_variation {
        if pv.first().map(|m| m.to_string()) != Some(best.clone()) {
            return Err(format!("{what}: pv starts with {:?} but bestmove is {best}", pv.first().map(|m| m.to_string())));
        }
    }
    let distinct = values.iter().map(|(_, v)| *v).collect::<std::collections::BTreeSet<_>>().len();
    ctx.class(&format!("depth_{}", c.depth));
    ctx.class(&format!("warmups_{}", c.warmup.len()));
    if c.warmup.iter().any(|(f, _, d)| *f == c.fen && *d > c.depth) {
        ctx.class("same_position_searched_deeper_before");
    }
    if c.warmup.iter().any(|(f, _, _)| *f != c.fen && f.split(' ').take(4).eq(c.fen.split(' ').take(4))) {
        ctx.class("same_placement_searched_with_other_clocks_before");
    }
    if c.warmup.iter().any(|(_, h, _)| !h.is_empty()) {
        ctx.class("earlier_game_history_through_the_same_position");
    }
    if want.abs() > refsearch::WIN / 2 {
        ctx.class("mate_score");
    }
    if distinct >= 2 {
        ctx.nontrivial((p.fen4(), c.depth));
    }
    ctx.sample(|| serde_json::json!({"fen": c.fen, "depth": c.depth, "score": want_text, "bestmove": best, "reference_nodes": nodes, "warmups": c.warmup.len()}));
    Ok(())
}

#[derive(Debug, Clone, Serialize, Deserialize)]
pub struct MateCase {
    pub fen: String,
    pub probe_depth: u32,
}

pub fn check_mates(c: &MateCase, ctx: &mut Ctx) -> Result<(), String> {
    let p = Pos::from_fen(&c.fen).ok_or_else(|| format!("{HARNESS_PREFIX} bad fen {}", c.fen))?;
    let mut b = eng::board_from_pos(&p);
    if refsearch::legal(&mut b).is_empty() {
        ctx.class("terminal_root");
        return Ok(());
    }
    let pieces = p.board.iter().filter(|x| x.is_some()).count();
    let max_n = if pieces <= 7 { 3 } else { 2 };
    let dist = refsearch::mate_distance(&mut b, max_n);
    let mut s = Session::new();
    if let Some(n) = dist {
        let depth = 2 * n - 1;
        let out = run_search(&mut s, &c.fen, &[], &GoSpec::depth(depth as u64))?;
        let what = format!("{} (forced mate in {n}) depth {depth}", c.fen);
        let info = out.last_scored().ok_or_else(|| format!("{what}: no scored info"))?;
        let got = score_text(&info.score.unwrap());
        if got != format!("mate {n}") {
            return Err(format!("{what}: engine reports {got}, expected mate {n}"));
        }
        let best = out.best_uci().ok_or_else(|| format!("{what}: bestmove 0000"))?;
        let mv = refsearch::legal(&mut b).into_iter().find(|m| m.to_uci_string() == best).ok_or_else(|| format!("{what}: bestmove {best} is not legal"))?;
        b.make(mv);
        let keeps = refsearch::mated_within(&mut b, n - 1);
        b.unmake(mv);
        if !keeps {
            return Err(format!("{what}: bestmove {best} does not keep the forced mate"));
        }
        ctx.class(&format!("mate_in_{n}"));
        ctx.nontrivial((p.fen4(), n));
    } else {
        ctx.class("no_short_mate");
    }
    // converse: whatever positive mate is announced must be real
    let out = run_search(&mut s, &c.fen, &[], &GoSpec::depth(c.probe_depth as u64))?;
    s.quit()?;
    if let Some(info) = out.last_scored() {
        if let Some(inkayaku_uci::Score::Mate { mate_in }) = info.score {
            if mate_in > 0 {
                let pv: Vec<String> = info.principal_variation.clone().unwrap_or_default().iter().map(|m| m.to_string()).collect();
                let what = format!("{} depth {}: announced mate {mate_in} with pv {pv:?}", c.fen, c.probe_depth);
                if pv.len() as i32 != 2 * mate_in - 1 {
                    return Err(format!("{what}: the pv should have {} plies", 2 * mate_in - 1));
                }
                let mut q = p.clone();
                for u in &pv {
                    match Mv::parse(u).filter(|m| q.is_legal(*m)) {
                        Some(m) => q = q.apply(m),
                        None => return Err(format!("{what}: {u} is illegal in {}", q.fen())),
                    }
                }
                if !(q.legal_moves().is_empty() && q.in_check(q.turn)) {
                    return Err(format!("{what}: the line ends in {}, which is not checkmate", q.fen()));
                }
                ctx.class("announced_mate_verified");
                ctx.nontrivial((p.fen4(), "announced", mate_in));
            } else {
                ctx.class("announced_being_mated");
            }
        }
    }
    ctx.sample(|| serde_json::json!({"fen": c.fen, "forced_mate_in": dist, "probe_depth": c.probe_depth}));
    Ok(())
}

#[derive(Debug, Clone, Serialize, Deserialize)]
pub struct SelfCase {
    pub fen: String,
    pub depth: u32,
}

/// harness validation: fast alpha-beta reference == pruning-free minimax on the independent model
pub fn check_self(c: &SelfCase, ctx: &mut Ctx) -> Result<(), String> {
    let p = Pos::from_fen(&c.fen).ok_or_else(|| format!("{HARNESS_PREFIX} bad fen {}", c.fen))?;
    if p.board.iter().filter(|x| x.is_some()).count() > 7 {
        ctx.class("skipped_too_much_material");
        return Ok(());
    }
    let mut b = eng::board_from_pos(&p);
    let (fast, _) = refsearch::root_value(&mut b, c.depth);
    let slow = refsearch::minimax_plain(&p, c.depth);
    if fast != slow {
        return Err(format!("{HARNESS_PREFIX} reference disagreement on {} depth {}: alpha-beta on engine board {fast}, plain minimax on the model {slow}", c.fen, c.depth));
    }
    ctx.class("agree");
    ctx.nontrivial((p.fen4(), c.depth));
    Ok(())
}

#[derive(Debug, Clone, Serialize, Deserialize)]
pub struct SmCase {
    pub fen: String,
    pub mv: String,
    pub depth: u32,
}

fn sm_case(r: &gen::RawPos, depth: u32, x: u16) -> SmCase {
    let mut p = gen::position(r, ClockDomain::EngineQuiet);
    // walk towards a position in which a mating or stalemating move exists (mobility-minimising play)
    if x % 3 != 0 {
        let mut q = p.clone();
        for step in 0..10u16 {
            let legal = q.legal_moves();
            if legal.is_empty() {
                break;
            }
            if legal.iter().any(|&m| q.apply(m).legal_moves().is_empty()) {
                p = q.clone();
                break;
            }
            let m = gen::choose_move(&q, &legal, 15 | ((x.wrapping_mul(31).wrapping_add(step * 97) & 0x0fff) << 4));
            q = q.apply(m);
            q.half = q.half.min(40);
        }
    }
    let legal = p.legal_moves();
    if legal.is_empty() {
        return SmCase { fen: p.fen(), mv: String::new(), depth };
    }
    // prefer moves after which the opponent has no legal move (mate / stalemate right at the horizon),
    // then moves after which the opponent has only one
    let terminal: Vec<Mv> = legal.iter().copied().filter(|&m| p.apply(m).legal_moves().is_empty()).collect();
    // the move that ends the game may be the 100th ply without capture or pawn move: mate is still mate
    if !terminal.is_empty() && x % 5 == 1 && x % 4 != 0 {
        p.half = 99 - (x as u64 / 5 % 2);
        p.full = p.full.max(60);
    }
    let pool: &[Mv] = if !terminal.is_empty() && x % 4 != 0 { &terminal } else { &legal };
    SmCase { fen: p.fen(), mv: pool[(x / 4) as usize % pool.len()].uci(), depth }
}

/// `go depth d searchmoves m` is worth exactly what m is worth
pub fn check_searchmoves(c: &SmCase, ctx: &mut Ctx) -> Result<(), String> {
    if c.mv.is_empty() {
        ctx.class("terminal_root");
        return Ok(());
    }
    let p = Pos::from_fen(&c.fen).ok_or_else(|| format!("{HARNESS_PREFIX} bad fen {}", c.fen))?;
    let mut b = eng::board_from_pos(&p);
    let values = refsearch::root_move_values(&mut b, c.depth);
    let want = values.iter().find(|(u, _)| *u == c.mv).map(|x| x.1).ok_or_else(|| format!("{HARNESS_PREFIX} searchmove {} not legal in {}", c.mv, c.fen))?;
    let mut s = Session::new();
    let out = run_search(&mut s, &c.fen, &[], &GoSpec { depth: Some(c.depth as u64), searchmoves: vec![c.mv.clone()], ..GoSpec::default() })?;
    s.quit()?;
    let what = format!("{} `go depth {} searchmoves {}`", c.fen, c.depth, c.mv);
    if out.best_uci().as_deref() != Some(c.mv.as_str()) {
        return Err(format!("{what}: bestmove {:?}", out.best_uci()));
    }
    let info = out.last_scored().ok_or_else(|| format!("{what}: no scored info"))?;
    let got = score_text(&info.score.unwrap());
    let want_text = refsearch::score_text(want, &b);
    if got != want_text {
        return Err(format!("{what}: engine reports {got}, the move is worth exactly {want_text}"));
    }
    let m = Mv::parse(&c.mv).unwrap();
    let child = p.apply(m);
    if child.legal_moves().is_empty() {
        ctx.class(if child.in_check(child.turn) { "move_mates" } else { "move_stalemates" });
        if child.half >= 99 {
            ctx.class("game_ending_move_is_the_99th_or_100th_quiet_ply");
        }
        if !child.in_check(child.turn) && child.pseudo_moves().iter().any(|&x| child.is_capture(x)) {
            ctx.class("stalemated_side_has_an_illegal_capture");
        }
        ctx.nontrivial((p.fen4(), c.mv.clone(), c.depth));
    } else {
        ctx.class("ordinary_move");
        if values.len() >= 2 {
            ctx.nontrivial((p.fen4(), c.mv.clone(), c.depth));
        }
    }
    ctx.sample(|| serde_json::json!({"fen": c.fen, "searchmove": c.mv, "depth": c.depth, "score": got}));
    Ok(())
}

// ------------------------------------------------------------------------------------------------
// depth 4..5 (6 on tiny trees): exact again once the transposition cache keeps nothing (hook): the production search
// code, driven synchronously, over the whole game tree with the draw-by-repetition rule of C10

#[derive(Debug, Clone, Serialize, Deserialize)]
pub struct DeepCase {
    pub fen: String,
    pub history: Vec<String>,
    pub depth: u32,
}

fn deep_case(r: &gen::RawPos, h: &gen::RawPlayout, depth: u32, x: u16) -> DeepCase {
    let mut p = gen::position(r, ClockDomain::EngineQuiet);
    p.half = p.half.min(30);
    // a few plies of game, in one case out of three with a take-back shuffle in front so that second occurrences
    // exist and a third one is in reach of the search
    let mut history: Vec<Mv> = Vec::new();
    let mut cur = p.clone();
    if x % 3 == 0 {
        let mut q = p.clone();
        q.ep = None;
        if let Some(quad) = crate::props::c10::shuffle_quad_pub(&q, x / 3) {
            p = q;
            cur = p.clone();
            let n = [2usize, 3, 4][(x / 3 % 3) as usize];
            for m in quad.iter().take(n) {
                history.push(*m);
                cur = cur.apply(*m);
            }
        }
    }
    let g = gen::play_from(cur, &h.choices[..h.choices.len().min((x % 5) as usize)]);
    history.extend(g.moves.iter().copied());
    DeepCase { fen: p.fen(), history: history.iter().map(Mv::uci).collect(), depth }
}

/// work bound for the two reference searches of one case
const DEEP_NODE_BUDGET: u64 = 400_000;

pub fn check_deep(c: &DeepCase, ctx: &mut Ctx) -> Result<(), String> {
    let start = Pos::from_fen(&c.fen).ok_or_else(|| format!("{HARNESS_PREFIX} bad fen {}", c.fen))?;
    let hist: Vec<Mv> = c.history.iter().map(|m| Mv::parse(m).ok_or_else(|| format!("{HARNESS_PREFIX} bad move {m}"))).collect::<Result<_, _>>()?;
    let mut root = start.clone();
    for m in &hist {
        if !root.is_legal(*m) {
            return Err(format!("{HARNESS_PREFIX} illegal history move {m}"));
        }
        root = root.apply(*m);
    }
    let keys = refsearch::game_keys(&start, &hist);
    let mut b = eng::board_from_pos(&root);
    if refsearch::legal(&mut b).is_empty() || root.half + c.depth as u64 >= 95 {
        ctx.class("skipped_terminal_or_near_fifty");
        return Ok(());
    }
    let mut s = crate::engsess::SyncSearch::new().without_table();
    let k = s.contempt();
    // the depth is lowered until the reference fits the work budget (a size bound, not a time limit)
    let mut depth = c.depth;
    let mut r = refsearch::root_values_rep(&mut b, &keys, depth, k, 1, DEEP_NODE_BUDGET);
    while r.is_none() && depth > 3 {
        depth -= 1;
        r = refsearch::root_values_rep(&mut b, &keys, depth, k, 1, DEEP_NODE_BUDGET);
    }
    let Some((want_a, moves_a, nodes, reps)) = r else {
        ctx.class("skipped_tree_too_large");
        return Ok(());
    };
    // the property leaves the sign of the contempt offset open: the other convention is accepted as well
    let (want_b, moves_b) = match if reps > 0 { refsearch::root_values_rep(&mut b, &keys, depth, k, -1, DEEP_NODE_BUDGET * 4) } else { None } {
        Some((w, m, _, _)) => (w, m),
        None => (want_a, moves_a.clone()),
    };
    s.position(&c.fen, &c.history)?;
    let what = format!("position fen {} moves {:?}, go depth {depth} (transposition cache disabled through the hook)", c.fen, c.history);
    let out = s.go(&GoSpec::depth(depth as u64)).map_err(|e| format!("{what}: {e}"))?;
    let info = out.last_scored().ok_or_else(|| format!("{what}: no info line carries a score"))?;
    if info.depth != Some(depth) {
        return Err(format!("{what}: the last scored info is for depth {:?}", info.depth));
    }
    let got = score_text(&info.score.unwrap());
    let (ta, tb) = (refsearch::score_text(want_a, &b), refsearch::score_text(want_b, &b));
    let (want, moves) = if got == ta {
        (want_a, &moves_a)
    } else if got == tb {
        (want_b, &moves_b)
    } else {
        let plain = refsearch::root_value(&mut b, depth).0;
        return Err(format!("{what}: engine reports score {got}, the exact minimax value is {ta}{} ({reps} lines of the tree end in a third occurrence; without any repetition rule the value would be {})", if tb != ta { format!(" (or {tb} with the opposite contempt sign)") } else { String::new() }, refsearch::score_text(plain, &b)));
    };
    let best = out.best_uci().ok_or_else(|| format!("{what}: bestmove 0000"))?;
    match moves.iter().find(|(u, _)| *u == best) {
        None => return Err(format!("{what}: bestmove {best} is not a legal move")),
        Some((_, v)) if *v != want => return Err(format!("{what}: bestmove {best} is worth {} but the position is worth {got}", refsearch::score_text(*v, &b))),
        _ => {}
    }
    if let Some(pv) = &info.principal_variation {
        if pv.first().map(|m| m.to_string()) != Some(best.clone()) {
            return Err(format!("{what}: pv starts with {:?} but bestmove is {best}", pv.first().map(|m| m.to_string())));
        }
        // the pv is a legal line
        let mut q = root.clone();
        for m in pv {
            let mv = Mv::parse(&m.to_string()).filter(|x| q.is_legal(*x)).ok_or_else(|| format!("{what}: pv {:?} is not a legal line", pv.iter().map(|m| m.to_string()).collect::<Vec<_>>()))?;
            q = q.apply(mv);
        }
    }
    ctx.evals(1);
    ctx.class(&format!("depth_{depth}"));
    if !c.history.is_empty() {
        ctx.class("with_game_history");
    }
    if reps > 0 {
        ctx.class("third_occurrence_inside_the_tree");
        let plain = refsearch::root_value(&mut b, depth).0;
        if plain != want {
            ctx.class("repetition_rule_decides_the_root_value");
        }
    }
    if want.abs() > refsearch::WIN / 2 {
        ctx.class("mate_score");
    }
    ctx.nontrivial((c.fen.clone(), c.history.clone(), depth));
    ctx.sample(|| serde_json::json!({"fen": c.fen, "history": c.history, "depth": depth, "score": got, "bestmove": best, "reference_nodes": nodes, "third_occurrence_leaves": reps}));
    Ok(())
}
