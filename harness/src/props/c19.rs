//! C19 — Lichess bot-stream payloads decode to the data they carry.

use std::str::FromStr;

use inkayaku_lichess_api::api::bot_event_response::BotEvent;
use inkayaku_lichess_api::api::bot_game_state_response::{BotGameState, GameStateHolder};
use inkayaku_uci::UciMove;
use proptest::prelude::*;
use serde::{Deserialize, Serialize};
use serde_json::{json, Map, Value};

use crate::gen::{self, ClockDomain};
use crate::refmodel::Mv;
use crate::run::{replay_case, run_part, Ctx, Part, Property};

pub fn property() -> Property {
    Property {
        id: "C19",
        level: "exploration",
        rule: "JSON documents of the nine documented shapes (gameFull, gameState, chatLine, opponentGone; gameStart, gameFinish, challenge, challengeCanceled, challengeDeclined) built field by field by the harness (every subset of optional fields, absent or null; enumerated keys from the harness's own tables; free text with JSON escapes / Unicode; moves from generated legal games of 0..300 plies; numeric ranges), rendered with generated key order and optional trailing newline; oracle: decoding succeeds and every transmitted key/value is found again in the decoded structure (public fields directly for moves / clocks / status, the rest through the structure's own serialisation compared against the GENERATED document), the move list equals the generated one and each entry round-trips through UciMove. Non-trivial = distinct document with >= 1 move, an escape sequence, or an optional field present",
        assumptions: &["the Lichess schema cannot be consulted offline: 'rules' is generated only as absent or comma-separated string, 'declineReason' only as absent or a single-word key, players always carry an id, perf/source keys are restricted to the ones the harness is sure of (see DESIGN C19)"],
        parts: vec![
            Part {
                name: "game_stream",
                quick: 30_000,
                thorough: 3_000_000,
                single_shard: false, supplementary: false,
                run: |cfg| run_part(cfg, (0..4u8, raw_doc()), |(k, r)| build_game_doc(*k, r), check_doc),
                replay: |v| replay_case::<Doc, _>(v, check_doc),
            },
            Part {
                name: "event_stream",
                quick: 20_000,
                thorough: 2_000_000,
                single_shard: false, supplementary: false,
                run: |cfg| run_part(cfg, (0..5u8, raw_doc()), |(k, r)| build_event_doc(*k, r), check_doc),
                replay: |v| replay_case::<Doc, _>(v, check_doc),
            },
        ],
    }
}

#[derive(Debug, Clone)]
pub struct RawDoc {
    game: gen::RawPlayout,
    bits: u64,
    nums: Vec<u32>,
    texts: Vec<String>,
    order: u64,
    newline: bool,
}

fn text() -> impl Strategy<Value = String> {
    prop_oneof![
        3 => "[A-Za-z0-9_ -]{1,12}",
        2 => "[ -~]{0,24}",
        1 => proptest::sample::select(vec!["Good luck, have fun", "say \"hi\"", "back\\slash", "tab\there", "line\nbreak", "ünïcödé", "名前", "emoji 😀", "null", "", "\u{0007}bell", "</script>", "a/b"]).prop_map(str::to_string),
        1 => any::<String>(),
    ]
}

fn raw_doc() -> impl Strategy<Value = RawDoc> {
    (gen::raw_playout(300), any::<u64>(), proptest::collection::vec(prop_oneof![2 => 0..5000u32, 1 => any::<u32>()], 24), proptest::collection::vec(text(), 16), any::<u64>(), any::<bool>()).prop_map(|(game, bits, nums, texts, order, newline)| RawDoc { game, bits, nums, texts, order, newline })
}

#[derive(Debug, Clone, Serialize, Deserialize)]
pub struct Doc {
    pub stream: String,
    pub text: String,
    pub document: Value,
    /// dotted paths of keys that Lichess sends but the model ignores (tolerated, not compared)
    pub extra: Vec<String>,
    pub moves: Option<Vec<String>>,
}

const STATUS: [&str; 13] = ["created", "started", "aborted", "mate", "resign", "stalemate", "timeout", "draw", "outoftime", "cheat", "noStart", "unknownFinish", "variantEnd"];
const STATUS_ID: [u32; 13] = [10, 20, 25, 30, 31, 32, 33, 34, 35, 36, 37, 38, 60];
const VARIANT: [(&str, &str, &str); 10] = [
    ("standard", "Standard", "Std"), ("crazyhouse", "Crazyhouse", "Crazy"), ("chess960", "Chess960", "960"), ("fromPosition", "From Position", "FEN"), ("kingOfTheHill", "King of the Hill", "KotH"),
    ("threeCheck", "Three-check", "3check"), ("antichess", "Antichess", "Anti"), ("atomic", "Atomic", "Atom"), ("horde", "Horde", "Horde"), ("racingKings", "Racing Kings", "Racing"),
];
const SPEED: [&str; 6] = ["ultraBullet", "bullet", "blitz", "rapid", "classical", "correspondence"];
const PERF: [&str; 13] = ["ultraBullet", "bullet", "blitz", "rapid", "classical", "correspondence", "chess960", "kingOfTheHill", "antichess", "atomic", "threeCheck", "racingKings", "crazyhouse"];
const SOURCE: [&str; 11] = ["lobby", "friend", "ai", "api", "position", "import", "importlive", "simul", "relay", "pool", "swiss"];
const CHALLENGE_STATUS: [&str; 5] = ["created", "offline", "canceled", "declined", "accepted"];
const DECLINE: [&str; 6] = ["generic", "later", "rated", "casual", "standard", "variant"];
const RULES: [&str; 5] = ["noAbort", "noRematch", "noGiveTime", "noClaimWin", "noEarlyDraw"];
const TITLES: [&str; 6] = ["GM", "IM", "FM", "BOT", "WGM", "LM"];

struct B<'a> {
    r: &'a RawDoc,
    bit: u32,
    num: usize,
    txt: usize,
}

impl<'a> B<'a> {
    fn flag(&mut self) -> bool {
        let v = (self.r.bits >> (self.bit % 64)) & 1 == 1;
        self.bit += 1;
        v
    }
    fn num(&mut self) -> u32 {
        let v = self.r.nums[self.num % self.r.nums.len()];
        self.num += 1;
        v
    }
    fn text(&mut self) -> String {
        let v = self.r.texts[self.txt % self.r.texts.len()].clone();
        self.txt += 1;
        v
    }
    fn pick<T: Copy>(&mut self, t: &[T]) -> T {
        let n = self.num() as usize;
        t[n % t.len()]
    }
    /// optional field: absent, null or present
    fn opt(&mut self, m: &mut Map<String, Value>, key: &str, v: Value) {
        if self.flag() {
            m.insert(key.to_string(), v);
        } else if self.flag() && self.flag() {
            m.insert(key.to_string(), Value::Null);
        }
    }
}

fn variant_full(b: &mut B) -> Value {
    let (k, n, s) = b.pick(&VARIANT);
    json!({"key": k, "name": n, "short": s})
}

fn player(b: &mut B) -> Value {
    let mut m = Map::new();
    m.insert("id".into(), json!(b.text().to_lowercase()));
    let name = b.text();
    b.opt(&mut m, "name", json!(name));
    let t = b.pick(&TITLES);
    b.opt(&mut m, "title", json!(t));
    let r = b.num() % 4000;
    b.opt(&mut m, "rating", json!(r));
    let p = b.flag();
    b.opt(&mut m, "provisional", json!(p));
    let a = b.num() % 9;
    if b.flag() && b.flag() {
        m.insert("aiLevel".into(), json!(a));
    }
    Value::Object(m)
}

fn state(b: &mut B, moves: &[String], with_type: bool, extra: &mut Vec<String>, prefix: &str) -> Value {
    let mut m = Map::new();
    if with_type {
        m.insert("type".into(), json!("gameState"));
        extra.push(format!("{prefix}type"));
    }
    if !(moves.is_empty() && b.flag()) {
        m.insert("moves".into(), json!(moves.join(" ")));
    }
    m.insert("wtime".into(), json!(b.num()));
    m.insert("btime".into(), json!(b.num()));
    m.insert("winc".into(), json!(b.num() % 200_000));
    m.insert("binc".into(), json!(b.num() % 200_000));
    m.insert("status".into(), json!(b.pick(&STATUS)));
    for k in ["wdraw", "bdraw", "wtakeback", "btakeback"] {
        let v = b.flag();
        b.opt(&mut m, k, json!(v));
    }
    let w = b.pick(&["white", "black"]);
    b.opt(&mut m, "winner", json!(w));
    let r = b.text();
    b.opt(&mut m, "rematch", json!(r));
    Value::Object(m)
}

fn game_moves(r: &RawDoc) -> Vec<String> {
    if r.bits >> 60 == 0xF || r.order % 5 == 0 {
        // decoding does not (and cannot) judge legality: any well-formed UCI move texts must come back unchanged
        let letters = ["", "", "", "", "q", "r", "b", "n"];
        return r.game.choices.iter().map(|&c| format!("{}{}{}", crate::refmodel::sq_name((c % 64) as u8), crate::refmodel::sq_name((c / 64 % 64) as u8), letters[(c / 4096 % 8) as usize])).collect();
    }
    let mut raw = r.game.clone();
    raw.seed = 0; // games on Lichess start from the initial position unless initialFen says otherwise
    raw.flip = false;
    gen::play(&raw, ClockDomain::Keep).moves.iter().map(Mv::uci).collect()
}

fn build_game_doc(kind: u8, r: &RawDoc) -> Doc {
    let mut b = B { r, bit: 0, num: 0, txt: 0 };
    let mut extra = Vec::new();
    let mut moves = None;
    let doc = match kind {
        0 => {
            let mv = if b.flag() { Vec::new() } else { game_moves(r) };
            let mut m = Map::new();
            m.insert("type".into(), json!("gameFull"));
            m.insert("id".into(), json!(b.text()));
            m.insert("variant".into(), variant_full(&mut b));
            m.insert("speed".into(), json!(b.pick(&SPEED)));
            let pn = b.text();
            m.insert("perf".into(), json!({"name": pn}));
            m.insert("rated".into(), json!(b.flag()));
            m.insert("createdAt".into(), json!(1_500_000_000_000u64 + b.num() as u64 * 97));
            m.insert("white".into(), player(&mut b));
            m.insert("black".into(), player(&mut b));
            m.insert("initialFen".into(), json!(if b.flag() { "startpos".to_string() } else { crate::refmodel::START_FEN.to_string() }));
            let (i, inc) = (b.num(), b.num() % 200_000);
            b.opt(&mut m, "clock", json!({"initial": i, "increment": inc}));
            let d = b.num() % 15;
            b.opt(&mut m, "daysPerTurn", json!(d));
            let t = b.text();
            b.opt(&mut m, "tournamentId", json!(t));
            m.insert("state".into(), state(&mut b, &mv, true, &mut extra, "state."));
            moves = Some(mv);
            Value::Object(m)
        }
        1 => {
            let mv = if b.flag() && b.flag() { Vec::new() } else { game_moves(r) };
            let mut v = state(&mut b, &mv, false, &mut extra, "");
            v.as_object_mut().unwrap().insert("type".into(), json!("gameState"));
            moves = Some(mv);
            v
        }
        2 => json!({"type": "chatLine", "room": b.pick(&["player", "spectator"]), "username": b.text(), "text": b.text()}),
        _ => {
            let mut m = Map::new();
            m.insert("type".into(), json!("opponentGone"));
            m.insert("gone".into(), json!(b.flag()));
            let s = b.num() % 600;
            b.opt(&mut m, "claimWinInSeconds", json!(s));
            Value::Object(m)
        }
    };
    finish("game", doc, extra, moves, r)
}

fn challenger(b: &mut B) -> Value {
    let mut m = Map::new();
    m.insert("id".into(), json!(b.text().to_lowercase()));
    m.insert("name".into(), json!(b.text()));
    m.insert("rating".into(), json!(b.num() % 4000));
    let t = b.pick(&TITLES);
    b.opt(&mut m, "title", json!(t));
    for k in ["provisional", "patron", "online"] {
        let v = b.flag();
        b.opt(&mut m, k, json!(v));
    }
    let l = b.num() % 5000;
    b.opt(&mut m, "lag", json!(l));
    Value::Object(m)
}

fn challenge(b: &mut B, declined: bool) -> Value {
    let mut m = Map::new();
    let id = b.text();
    m.insert("url".into(), json!(format!("https://lichess.org/{id}")));
    m.insert("id".into(), json!(id));
    m.insert("status".into(), json!(if declined { "declined" } else { b.pick(&CHALLENGE_STATUS) }));
    let c = challenger(b);
    b.opt(&mut m, "challenger", c);
    let d = challenger(b);
    b.opt(&mut m, "destUser", d);
    m.insert("variant".into(), variant_full(b));
    m.insert("rated".into(), json!(b.flag()));
    m.insert("speed".into(), json!(b.pick(&SPEED)));
    let tc = match b.num() % 3 {
        0 => {
            let (l, i) = (b.num() % 10_800, b.num() % 180);
            json!({"type": "clock", "limit": l, "increment": i, "show": format!("{}+{}", l / 60, i)})
        }
        1 => json!({"type": "correspondence", "daysPerTurn": 1 + b.num() % 14}),
        _ => json!({"type": "unlimited"}),
    };
    m.insert("timeControl".into(), tc);
    m.insert("color".into(), json!(b.pick(&["random", "white", "black"])));
    m.insert("finalColor".into(), json!(b.pick(&["white", "black"])));
    let (icon, name) = (b.text(), b.text());
    m.insert("perf".into(), json!({"icon": icon, "name": name}));
    let ro = b.text();
    b.opt(&mut m, "rematchOf", json!(ro));
    let dir = b.pick(&["in", "out"]);
    b.opt(&mut m, "direction", json!(dir));
    let fen = crate::refmodel::START_FEN.to_string();
    b.opt(&mut m, "initialFen", json!(fen));
    if declined || b.flag() {
        let dr = b.pick(&DECLINE);
        b.opt(&mut m, "declineReason", json!(dr));
    }
    if b.flag() {
        // a non-empty comma-separated subset of the documented rule names
        let mask = 1 + b.num() % 31;
        let rules: Vec<&str> = (0..5).filter(|i| mask & (1 << i) != 0).map(|i| RULES[i]).collect();
        m.insert("rules".into(), json!(rules.join(",")));
    }
    Value::Object(m)
}

fn game_event_info(b: &mut B, r: &RawDoc, extra: &mut Vec<String>) -> Value {
    let g = gen::play(&r.game, ClockDomain::Keep);
    let mut m = Map::new();
    let id = b.text();
    m.insert("fullId".into(), json!(format!("{id}abcd")));
    m.insert("gameId".into(), json!(id.clone()));
    m.insert("id".into(), json!(id));
    extra.push("game.id".into());
    m.insert("fen".into(), json!(g.last().fen()));
    m.insert("color".into(), json!(b.pick(&["white", "black"])));
    m.insert("lastMove".into(), json!(g.moves.last().map(Mv::uci).unwrap_or_default()));
    m.insert("source".into(), json!(b.pick(&SOURCE)));
    let si = b.num() as usize % STATUS.len();
    m.insert("status".into(), json!({"id": STATUS_ID[si], "name": STATUS[si]}));
    let (k, n, _) = b.pick(&VARIANT);
    m.insert("variant".into(), json!({"key": k, "name": n}));
    m.insert("speed".into(), json!(b.pick(&SPEED)));
    m.insert("perf".into(), json!(b.pick(&PERF)));
    m.insert("rated".into(), json!(b.flag()));
    m.insert("hasMoved".into(), json!(b.flag()));
    m.insert("isMyTurn".into(), json!(b.flag()));
    extra.push("game.isMyTurn".into());
    let mut o = Map::new();
    o.insert("id".into(), json!(b.text().to_lowercase()));
    o.insert("username".into(), json!(b.text()));
    let rt = b.num() % 4000;
    b.opt(&mut o, "rating", json!(rt));
    let rd = (b.num() % 200) as i64 - 100;
    b.opt(&mut o, "ratingDiff", json!(rd));
    let ai = 1 + b.num() % 8;
    b.opt(&mut o, "ai", json!(ai));
    m.insert("opponent".into(), Value::Object(o));
    let sl = b.num();
    b.opt(&mut m, "secondsLeft", json!(sl));
    let t = b.text();
    b.opt(&mut m, "tournamentId", json!(t));
    let s = b.text();
    b.opt(&mut m, "swissId", json!(s));
    let oc = b.pick(&["white", "black"]);
    b.opt(&mut m, "orientation", json!(oc));
    let w = b.pick(&["white", "black"]);
    b.opt(&mut m, "winner", json!(w));
    let rd = (b.num() % 60) as i64 - 30;
    b.opt(&mut m, "ratingDiff", json!(rd));
    let (cb, cd) = (b.flag(), b.flag());
    b.opt(&mut m, "compat", json!({"bot": cb, "board": cd}));
    Value::Object(m)
}

fn build_event_doc(kind: u8, r: &RawDoc) -> Doc {
    let mut b = B { r, bit: 0, num: 0, txt: 0 };
    let mut extra = Vec::new();
    let doc = match kind {
        0 => json!({"type": "gameStart", "game": game_event_info(&mut b, r, &mut extra)}),
        1 => json!({"type": "gameFinish", "game": game_event_info(&mut b, r, &mut extra)}),
        2 => {
            let mut m = Map::new();
            m.insert("type".into(), json!("challenge"));
            m.insert("challenge".into(), challenge(&mut b, false));
            let (cb, cd) = (b.flag(), b.flag());
            b.opt(&mut m, "compat", json!({"bot": cb, "board": cd}));
            Value::Object(m)
        }
        3 => json!({"type": "challengeCanceled", "challenge": challenge(&mut b, false)}),
        _ => json!({"type": "challengeDeclined", "challenge": challenge(&mut b, true)}),
    };
    finish("event", doc, extra, None, r)
}

/// JSON text with a generated key order (objects are written starting at a rotated position)
fn render(v: &Value, order: u64, out: &mut String) {
    match v {
        Value::Object(m) => {
            out.push('{');
            let keys: Vec<&String> = m.keys().collect();
            let n = keys.len();
            let rot = if n == 0 { 0 } else { (order % n as u64) as usize };
            let rev = order & 1 == 1;
            for i in 0..n {
                let k = keys[if rev { (rot + n - i) % n } else { (rot + i) % n }];
                if i > 0 {
                    out.push(',');
                }
                out.push_str(&json_string(k, order / 7 + i as u64));
                out.push(':');
                if order % 11 == 3 {
                    out.push(' ');
                }
                render(&m[k], order / 3 + 1, out);
            }
            out.push('}');
        }
        Value::Array(a) => {
            out.push('[');
            for (i, x) in a.iter().enumerate() {
                if i > 0 {
                    out.push(',');
                }
                render(x, order / 5 + 1, out);
            }
            out.push(']');
        }
        Value::String(t) => out.push_str(&json_string(t, order)),
        other => out.push_str(&serde_json::to_string(other).unwrap()),
    }
}

/// one of several equivalent JSON spellings of a string: the standard one, `\/` for the solidus, \uXXXX escapes for
/// every third ASCII letter or digit, \uXXXX (with surrogate pairs) for everything outside ASCII
fn json_string(t: &str, mode: u64) -> String {
    let std = serde_json::to_string(t).unwrap();
    match mode % 8 {
        1 => std.replace('/', "\\/"),
        2 => {
            let mut out = String::from("\"");
            let mut n = 0;
            for ch in t.chars() {
                n += 1;
                if ch.is_ascii_alphanumeric() && n % 3 == 0 {
                    out.push_str(&format!("\\u{:04x}", ch as u32));
                } else if ch == '/' {
                    out.push_str("\\/");
                } else {
                    let one = serde_json::to_string(&ch.to_string()).unwrap();
                    out.push_str(&one[1..one.len() - 1]);
                }
            }
            out.push('"');
            out
        }
        3 => {
            let mut out = String::from("\"");
            for ch in t.chars() {
                if ch.is_ascii() {
                    let one = serde_json::to_string(&ch.to_string()).unwrap();
                    out.push_str(&one[1..one.len() - 1]);
                } else {
                    let mut buf = [0u16; 2];
                    for u in ch.encode_utf16(&mut buf) {
                        out.push_str(&format!("\\u{:04X}", u));
                    }
                }
            }
            out.push('"');
            out
        }
        _ => std,
    }
}

fn finish(stream: &str, document: Value, extra: Vec<String>, moves: Option<Vec<String>>, r: &RawDoc) -> Doc {
    let mut text = String::new();
    render(&document, r.order, &mut text);
    if r.newline {
        text.push('\n');
    }
    Doc { stream: stream.to_string(), text, document, extra, moves }
}

/// every key/value of `want` must be found in `got` (nulls may be absent); `moves` and `rules` are lists on the decoded side
fn contained(want: &Value, got: &Value, path: &str, extra: &[String]) -> Result<(), String> {
    match (want, got) {
        (Value::Object(w), Value::Object(g)) => {
            for (k, wv) in w {
                let p = if path.is_empty() { k.clone() } else { format!("{path}.{k}") };
                if extra.contains(&p) {
                    continue;
                }
                match g.get(k) {
                    None | Some(Value::Null) if wv.is_null() => {}
                    None => return Err(format!("transmitted field {p} = {wv} is missing from the decoded message")),
                    Some(gv) => {
                        if (k == "moves" || k == "rules") && wv.is_string() && gv.is_array() {
                            let sep = if k == "moves" { ' ' } else { ',' };
                            let list: Vec<Value> = wv.as_str().unwrap().split(sep).filter(|s| !s.is_empty()).map(|s| json!(s)).collect();
                            let got_list: Vec<Value> = gv.as_array().unwrap().iter().map(|x| if k == "rules" { json!(x.as_str().unwrap_or("")) } else { x.clone() }).collect();
                            if list != got_list {
                                return Err(format!("field {p}: transmitted {wv}, decoded {gv}"));
                            }
                        } else {
                            contained(wv, gv, &p, extra)?;
                        }
                    }
                }
            }
            Ok(())
        }
        (w, g) if w == g => Ok(()),
        (w, g) => Err(format!("field {path}: transmitted {w}, decoded {g}")),
    }
}

fn check_state(s: &GameStateHolder, doc: &Value, moves: &[String]) -> Result<(), String> {
    if s.moves != moves {
        return Err(format!("move list decoded as {:?}, transmitted {:?}", s.moves, moves));
    }
    for m in &s.moves {
        let u = UciMove::from_str(m).map_err(|e| format!("decoded move {m:?} is rejected by the UCI move parser: {e:?}"))?;
        if &u.to_string() != m {
            return Err(format!("decoded move {m:?} re-formats as {u}"));
        }
    }
    for (k, v) in [("wtime", s.wtime), ("btime", s.btime), ("winc", s.winc), ("binc", s.binc)] {
        if doc.get(k).and_then(Value::as_u64) != Some(v as u64) {
            return Err(format!("{k} decoded as {v}, transmitted {:?}", doc.get(k)));
        }
    }
    let status = serde_json::to_value(&s.status).unwrap_or(Value::Null);
    if Some(&status) != doc.get("status") {
        return Err(format!("status decoded as {status}, transmitted {:?}", doc.get("status")));
    }
    Ok(())
}

pub fn check_doc(d: &Doc, ctx: &mut Ctx) -> Result<(), String> {
    let kind = d.document.get("type").and_then(Value::as_str).unwrap_or("?").to_string();
    let decoded: Value = if d.stream == "game" {
        let msg: BotGameState = serde_json::from_str(&d.text).map_err(|e| format!("{kind} message does not decode: {e}; text: {}", d.text))?;
        match (&msg, &d.moves) {
            (BotGameState::GameFull { state, .. }, Some(mv)) => check_state(state, d.document.get("state").unwrap_or(&Value::Null), mv).map_err(|e| format!("gameFull: {e}; text: {}", d.text))?,
            (BotGameState::GameState { state }, Some(mv)) => check_state(state, &d.document, mv).map_err(|e| format!("gameState: {e}; text: {}", d.text))?,
            (BotGameState::ChatLine { .. }, None) | (BotGameState::OpponentGone { .. }, None) => {}
            _ => return Err(format!("{kind} message decoded as a different kind of message; text: {}", d.text)),
        }
        // the next message of the same stream, decoded right afterwards on the same thread: the move string has grown —
        // by whole moves, or (a different game / arbitrary well-formed texts) so that the OLD string ends in the middle of
        // a token of the new one. Whatever a decoder remembers of the previous message, the list is the one transmitted.
        if let Some(mv) = &d.moves {
            if let Some(last) = mv.last().filter(|l| l.len() == 4) {
                let mut next: Vec<String> = mv.clone();
                let n = next.len();
                next[n - 1] = format!("{last}q");
                next.push("h8h7".to_string());
                let mut doc2 = d.document.clone();
                let slot = if doc2.get("state").is_some() { doc2.get_mut("state").unwrap() } else { &mut doc2 };
                slot["moves"] = json!(next.join(" "));
                let mut text2 = String::new();
                render(&doc2, 0, &mut text2);
                let msg2: BotGameState = serde_json::from_str(&text2).map_err(|e| format!("follow-up {kind} message does not decode: {e}; text: {text2}"))?;
                let got = match &msg2 {
                    BotGameState::GameFull { state, .. } | BotGameState::GameState { state } => state.moves.clone(),
                    _ => vec![],
                };
                if got != next {
                    return Err(format!("after decoding {} the follow-up message {text2} decodes its move list as {got:?}, transmitted {next:?}", d.text));
                }
                ctx.class("follow_up_message_whose_move_string_extends_the_previous_one_mid_token");
            }
        }
        serde_json::to_value(&msg).map_err(|e| format!("HARNESS: cannot observe decoded message: {e}"))?
    } else {
        let msg: BotEvent = serde_json::from_str(&d.text).map_err(|e| format!("{kind} event does not decode: {e}; text: {}", d.text))?;
        serde_json::to_value(&msg).map_err(|e| format!("HARNESS: cannot observe decoded event: {e}"))?
    };
    contained(&d.document, &decoded, "", &d.extra).map_err(|e| format!("{kind}: {e}; text: {}", d.text))?;
    ctx.class(&kind);
    let mut nt = false;
    if let Some(m) = &d.moves {
        ctx.class(match m.len() {
            0 => "moves_0",
            1..=20 => "moves_1_20",
            21..=100 => "moves_21_100",
            _ => "moves_gt_100",
        });
        if m.iter().any(|x| x.len() == 5) {
            ctx.class("moves_with_promotion");
        }
        if m.iter().any(|x| matches!(x.as_str(), "e1g1" | "e1c1" | "e8g8" | "e8c8")) {
            ctx.class("moves_with_castling_pattern");
        }
        nt |= !m.is_empty();
    }
    if d.text.contains('\\') {
        ctx.class("json_escape");
        nt = true;
    }
    if !d.text.is_ascii() {
        ctx.class("non_ascii");
        nt = true;
    }
    if d.text.contains("null") {
        ctx.class("explicit_null");
    }
    if nt || d.text.len() > 80 {
        ctx.nontrivial(&d.text);
    }
    ctx.sample(|| json!({"text": if d.text.len() > 600 { format!("{}…", &d.text.chars().take(600).collect::<String>()) } else { d.text.clone() }}));
    Ok(())
}
