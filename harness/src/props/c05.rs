//! C05 — check, checkmate and stalemate are recognised exactly.

use inkayaku_board::Move;
use inkayaku_core::constants::Color as EColor;
use inkayaku_engine_core::verif as hooks;

use crate::eng;
use crate::gen::{self, ClockDomain};
use crate::props::PosCase;
use crate::refmodel::{Color, Kind, Mv, Pos};
use crate::run::{replay_case, run_part, Ctx, Part, Property};

pub fn property() -> Property {
    Property {
        id: "C05",
        level: "exploration",
        rule: "generated positions (playouts, synthetic incl. endgame / mating-net profiles, colour flips) and the position after EVERY pseudo-legal move of each; oracle = reference attack detection: is_current_in_check, is_in_check(white/black), is_valid() after make, 'no legal move' <=> reference has none, and mate (in check) vs stalemate (not in check) as classified by the evaluator hook and by the SAN suffix. Non-trivial = distinct 4-field FEN in which a king is attacked (by attacker kind) or which has no legal move",
        assumptions: &["reference attack detection walks rays/steps on a mailbox board; validated by perft", "evaluator reached through the cfg(inkayaku_verif) hook static_eval"],
        parts: vec![
            Part {
                name: "status",
                quick: 40_000,
                thorough: 6_000_000,
                single_shard: false, supplementary: false,
                run: |cfg| run_part(cfg, (prop_mix(), proptest::bool::ANY), |(r, clocks)| PosCase { fen: gen::position(r, if *clocks { ClockDomain::Engine } else { ClockDomain::Keep }).fen() }, check_status),
                replay: |v| replay_case::<PosCase, _>(v, check_status),
            },
        ],
    }
}

fn prop_mix() -> impl proptest::strategy::Strategy<Value = gen::RawPos> {
    use proptest::prelude::*;
    prop_oneof![
        3 => gen::raw_pos(80),
        2 => gen::raw_pos_endgames(),
    ]
}

fn attacker_classes(p: &Pos, c: Color, ctx: &mut Ctx) -> usize {
    let Some(k) = p.king_sq(c) else { return 0 };
    let att = p.attackers(k, c.other());
    for a in &att {
        if let Some((_, kind)) = p.board[*a as usize] {
            let name = match (kind, c) {
                (Kind::Pawn, Color::White) => "white_king_attacked_by_pawn",
                (Kind::Pawn, Color::Black) => "black_king_attacked_by_pawn",
                (Kind::Knight, _) => "king_attacked_by_knight",
                (Kind::Bishop, _) => "king_attacked_by_bishop",
                (Kind::Rook, _) => "king_attacked_by_rook",
                (Kind::Queen, _) => "king_attacked_by_queen",
                (Kind::King, _) => "king_attacked_by_king",
            };
            ctx.class(name);
        }
    }
    if att.len() >= 2 {
        ctx.class("multiple_attackers");
    }
    att.len()
}

/// All in-check observers of one engine board against the model position it should represent.
fn compare_checks(b: &inkayaku_board::Bitboard, p: &Pos, what: &str) -> Result<(), String> {
    let w = p.in_check(Color::White);
    let bl = p.in_check(Color::Black);
    let cur = if p.turn == Color::White { w } else { bl };
    if b.is_current_in_check() != cur {
        return Err(format!("{what}: is_current_in_check() = {} but the side to move is {}in check by the rules", b.is_current_in_check(), if cur { "" } else { "not " }));
    }
    if b.is_in_check(&EColor::WHITE) != w {
        return Err(format!("{what}: is_in_check(white) = {} but rules say {w}", b.is_in_check(&EColor::WHITE)));
    }
    if b.is_in_check(&EColor::BLACK) != bl {
        return Err(format!("{what}: is_in_check(black) = {} but rules say {bl}", b.is_in_check(&EColor::BLACK)));
    }
    let other = if p.turn == Color::White { bl } else { w };
    if b.is_valid() == other {
        return Err(format!("{what}: is_valid() = {} but the side that just moved is {}in check", b.is_valid(), if other { "" } else { "not " }));
    }
    Ok(())
}

fn terminal_checks(b: &mut inkayaku_board::Bitboard, p: &Pos, what: &str, ctx: &mut Ctx) -> Result<(), String> {
    let none_ref = p.legal_moves().is_empty();
    let none_eng = b.generate_legal_moves().is_empty();
    if none_ref != none_eng {
        return Err(format!("{what}: engine {} legal moves, rules {}", if none_eng { "has no" } else { "has" }, if none_ref { "none" } else { "some" }));
    }
    if none_ref {
        let in_check = p.in_check(p.turn);
        let v = hooks::static_eval(b, false);
        let is_mate_value = hooks::is_checkmate(v);
        if in_check != is_mate_value {
            return Err(format!("{what}: position without legal moves is {} by the rules but the evaluator scores it {v} ({})", if in_check { "checkmate" } else { "stalemate" }, if is_mate_value { "a mate value" } else { "not a mate value" }));
        }
        if !in_check && v != hooks::draw_score() {
            return Err(format!("{what}: stalemate scored {v}, not the draw score"));
        }
        ctx.class(if in_check { "checkmate" } else { "stalemate" });
        if p.half >= 100 {
            ctx.class(if in_check { "checkmate_with_clock_ge_100" } else { "stalemate_with_clock_ge_100" });
        }
        ctx.nontrivial(p.fen4());
    }
    Ok(())
}

pub fn check_status(case: &PosCase, ctx: &mut Ctx) -> Result<(), String> {
    let p = Pos::from_fen(&case.fen).ok_or_else(|| format!("HARNESS: bad case fen {}", case.fen))?;
    let mut b = eng::board_from_pos(&p);
    compare_checks(&b, &p, &format!("in {}", case.fen))?;
    let pseudo_now = b.generate_pseudo_legal_moves();
    if b.is_any_move_legal(&pseudo_now) == p.legal_moves().is_empty() {
        return Err(format!("is_any_move_legal = {} in {} but the rules give {} legal moves", b.is_any_move_legal(&pseudo_now), case.fen, p.legal_moves().len()));
    }
    terminal_checks(&mut b, &p, &format!("in {}", case.fen), ctx)?;
    ctx.evals(1);
    if attacker_classes(&p, p.turn, ctx) > 0 {
        ctx.nontrivial(p.fen4());
    }
    let model_pseudo = p.pseudo_moves();
    let legal = p.legal_moves();
    let pseudo: Vec<Move> = b.generate_pseudo_legal_moves();
    for mv in &pseudo {
        let u = mv.to_uci_string();
        let Some(m) = Mv::parse(&u) else { return Err(format!("unreadable pseudo-legal move {u:?} in {}", case.fen)) };
        if !model_pseudo.contains(&m) {
            return Err(format!("engine emits {u} in {}, which is not even pseudo-legal by the rules (see C01)", case.fen));
        }
        let after = p.apply(m);
        // the helper every caller uses for "does this move leave my own king attacked?"
        let legal_by_rules = !after.in_check(p.turn);
        if b.is_move_legal(*mv) != legal_by_rules {
            return Err(format!("is_move_legal({u}) = {} in {}, but the move {} the mover's king attacked", !legal_by_rules, case.fen, if legal_by_rules { "does not leave" } else { "leaves" }));
        }
        b.make(*mv);
        let what = format!("after {u} in {}", case.fen);
        let r = compare_checks(&b, &after, &what);
        let mut r2 = Ok(());
        if r.is_ok() && !after.in_check(p.turn) {
            r2 = terminal_checks(&mut b, &after, &what, ctx);
            if attacker_classes(&after, after.turn, ctx) > 0 {
                ctx.nontrivial(after.fen4());
            }
        } else if r.is_ok() {
            ctx.class("mover_left_own_king_attacked");
            attacker_classes(&after, p.turn, ctx);
            ctx.nontrivial((after.fen4(), "invalid"));
        }
        b.unmake(*mv);
        r?;
        r2?;
        ctx.evals(1);
        // SAN suffix: '#' exactly for mate
        if legal.contains(&m) {
            let gives_check = after.in_check(after.turn);
            let no_moves = after.legal_moves().is_empty();
            if no_moves || gives_check {
                let san = b.uci_to_pgn(&u).map_err(|e| format!("uci_to_pgn({u}) fails for a legal move in {}: {e:?}", case.fen))?;
                let want = if gives_check && no_moves { "#" } else if gives_check { "+" } else { "" };
                let got = if san.ends_with('#') { "#" } else if san.ends_with('+') { "+" } else { "" };
                if got != want {
                    return Err(format!("SAN of {u} in {} is {san}: suffix {got:?} but the move {}", case.fen, match want {
                        "#" => "checkmates",
                        "+" => "gives check without mate",
                        _ => "stalemates (no check)",
                    }));
                }
            }
        }
    }
    ctx.sample(|| serde_json::json!({"fen": case.fen, "in_check": p.in_check(p.turn), "pseudo_legal_successors_checked": pseudo.len()}));
    Ok(())
}
