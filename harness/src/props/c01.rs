//! C01 — legal move generation is exactly the rules of chess.

use std::collections::BTreeSet;

use inkayaku_board::Move;

use crate::eng;
use crate::gen::{self, ClockDomain};
use crate::props::PosCase;
use crate::refmodel::{Mv, Pos};
use crate::run::{replay_case, run_part, Ctx, Part, Property};

pub fn property() -> Property {
    Property {
        id: "C01",
        level: "exploration",
        rule: "positions by construction (playouts through the reference model from 67 seed FENs with biased move choice, synthetic positions from 7 material profiles, colour-flipped twins); oracle = independent reference move generator compared as sets of UCI strings for generate_legal_moves, pseudo-legal+make/is_valid/unmake, the capture/promotion generator, and perft root splits. Non-trivial = distinct 4-field FEN where pseudo-legal != legal, or side to move in check, or e.p./castling/promotion is available",
        assumptions: &["reference model validated against published perft counts at start-up", "positions are sane (one king each, consistent rights / e.p.) but not proven reachable"],
        parts: vec![
            Part {
                name: "movesets",
                quick: 120_000,
                thorough: 4_000_000,
                single_shard: false, supplementary: false,
                run: |cfg| run_part(cfg, gen::raw_pos(80), |r| PosCase { fen: gen::position(r, ClockDomain::Unmake).fen() }, check_movesets),
                replay: |v| replay_case::<PosCase, _>(v, check_movesets),
            },
            Part {
                name: "along_games",
                quick: 6_000,
                thorough: 150_000,
                single_shard: false, supplementary: false,
                run: |cfg| {
                    run_part(
                        cfg,
                        gen::raw_playout(150),
                        |r| {
                            // the legal-move generator unmakes: keep every position's clock inside unmake's domain
                            let mut start = gen::seed_position(r, ClockDomain::Unmake);
                            start.half = start.half.min(4095 - r.choices.len() as u64);
                            gen::play_from(start, &r.choices).to_game()
                        },
                        check_along_game,
                    )
                },
                replay: |v| replay_case::<gen::Game, _>(v, check_along_game),
            },
            Part {
                name: "perft",
                quick: 1_500,
                thorough: 40_000,
                single_shard: false, supplementary: false,
                run: |cfg| run_part(cfg, gen::raw_pos(60), |r| PosCase { fen: gen::position(r, ClockDomain::Unmake).fen() }, check_perft),
                replay: |v| replay_case::<PosCase, _>(v, check_perft),
            },
            crate::props::fuzz_corpus_part!("board_ops"),
        ],
    }
}

fn dups(v: &[String]) -> Vec<String> {
    let mut seen = BTreeSet::new();
    let mut d = Vec::new();
    for s in v {
        if !seen.insert(s.clone()) {
            d.push(s.clone());
        }
    }
    d
}

fn diff(what: &str, fen: &str, got: &[String], want: &[String]) -> Result<(), String> {
    let g: BTreeSet<&String> = got.iter().collect();
    let w: BTreeSet<&String> = want.iter().collect();
    if g == w {
        return Ok(());
    }
    let missing: Vec<&&String> = w.difference(&g).collect();
    let extra: Vec<&&String> = g.difference(&w).collect();
    Err(format!("{what} differs from the rules in {fen}: missing {missing:?}, extra {extra:?}"))
}

pub fn check_movesets(case: &PosCase, ctx: &mut Ctx) -> Result<(), String> {
    let p = Pos::from_fen(&case.fen).ok_or_else(|| format!("HARNESS: bad case fen {}", case.fen))?;
    let fen = p.fen();
    let mut b = eng::board_from_pos(&p);
    let legal: Vec<Mv> = p.legal_moves();
    let want = eng::sorted(legal.iter().map(Mv::uci).collect());

    // (a) generate_legal_moves
    let got = eng::legal_uci(&mut b);
    let d = dups(&got);
    if !d.is_empty() {
        return Err(format!("generate_legal_moves lists {d:?} more than once in {fen}"));
    }
    diff("generate_legal_moves", &fen, &got, &want)?;

    // (b) pseudo-legal + make / is_valid / unmake (the path search and perft use)
    let before = eng::snap(&b);
    let pseudo: Vec<Move> = b.generate_pseudo_legal_moves();
    let pseudo_uci: Vec<String> = pseudo.iter().map(Move::to_uci_string).collect();
    let d = dups(&pseudo_uci);
    if !d.is_empty() {
        return Err(format!("generate_pseudo_legal_moves lists {d:?} more than once in {fen}"));
    }
    let mut filtered = Vec::new();
    for mv in &pseudo {
        b.make(*mv);
        if b.is_valid() {
            filtered.push(mv.to_uci_string());
        }
        b.unmake(*mv);
    }
    if eng::snap(&b).pieces != before.pieces {
        return Err(format!("HARNESS-INDEPENDENT: board changed by make/unmake sweep in {fen} (see C03)"));
    }
    diff("pseudo-legal + make/is_valid/unmake", &fen, &filtered, &want)?;

    // (c) capture / promotion generator
    let nq: Vec<Move> = b.generate_pseudo_legal_non_quiescent_moves();
    let nq_uci: Vec<String> = nq.iter().map(Move::to_uci_string).collect();
    let d = dups(&nq_uci);
    if !d.is_empty() {
        return Err(format!("generate_pseudo_legal_non_quiescent_moves lists {d:?} more than once in {fen}"));
    }
    for u in &nq_uci {
        let m = Mv::parse(u).ok_or_else(|| format!("capture generator emitted unreadable move {u:?} in {fen}"))?;
        if p.board[m.from as usize].is_none() {
            return Err(format!("capture generator emitted {u} from an empty square in {fen}"));
        }
        if !(p.is_capture(m) || m.promo.is_some()) {
            return Err(format!("capture/promotion generator emitted the quiet move {u} in {fen}"));
        }
    }
    let mut nq_filtered = Vec::new();
    for mv in &nq {
        b.make(*mv);
        if b.is_valid() {
            nq_filtered.push(mv.to_uci_string());
        }
        b.unmake(*mv);
    }
    let want_nq: Vec<String> = eng::sorted(legal.iter().filter(|&&m| p.is_capture(m) || m.promo.is_some()).map(Mv::uci).collect());
    diff("capture/promotion generator + legality filter", &fen, &nq_filtered, &want_nq)?;

    // classification
    let classes = gen::classify(&p);
    for c in &classes {
        ctx.class(c);
    }
    let interesting = classes.iter().any(|c| matches!(*c, "in_check" | "double_check" | "pseudo_ne_legal" | "ep_capture_legal" | "ep_capture_illegal_by_pin_or_check" | "castling_available" | "castling_unavailable" | "promotion_available" | "checkmate" | "stalemate"));
    if interesting {
        ctx.nontrivial(p.fen4());
    }
    ctx.sample(|| serde_json::json!({"fen": fen, "legal": want.len(), "pseudo_legal": pseudo_uci.len(), "captures_promotions": want_nq.len()}));
    Ok(())
}

fn ref_split(p: &Pos, depth: u32) -> Vec<(String, u64)> {
    let mut v: Vec<(String, u64)> = p.legal_moves().iter().map(|&m| (m.uci(), p.apply(m).perft(depth - 1))).collect();
    v.sort();
    v
}

pub fn check_perft(case: &PosCase, ctx: &mut Ctx) -> Result<(), String> {
    let p = Pos::from_fen(&case.fen).ok_or_else(|| format!("HARNESS: bad case fen {}", case.fen))?;
    let fen = p.fen();
    let mut b = eng::board_from_pos(&p);
    let n1 = p.legal_moves().len() as u64;
    let n2 = p.perft(2);
    let max_depth = if n2 <= 500 { 3 } else { 2 };
    for depth in 1..=max_depth {
        let want = ref_split(&p, depth);
        let mut got: Vec<(String, u64)> = b.perft(depth as usize).into_iter().map(|(m, n)| (m.to_uci_string(), n)).collect();
        got.sort();
        if got != want {
            let bad: Vec<String> = want
                .iter()
                .filter(|w| !got.contains(w))
                .map(|w| format!("{}: rules {} / engine {:?}", w.0, w.1, got.iter().find(|g| g.0 == w.0).map(|g| g.1)))
                .chain(got.iter().filter(|g| !want.iter().any(|w| w.0 == g.0)).map(|g| format!("{}: not legal / engine {}", g.0, g.1)))
                .collect();
            return Err(format!("perft({depth}) root split differs in {fen}: {bad:?}"));
        }
    }
    ctx.class(if max_depth == 3 { "depth3" } else { "depth2" });
    if n1 > 0 {
        ctx.nontrivial(p.fen4());
    }
    ctx.sample(|| serde_json::json!({"fen": fen, "depth": max_depth, "perft1": n1, "perft2": n2}));
    Ok(())
}

/// Histories: the position is reached by make() on ONE engine board (never re-loaded from text), so
/// state that only a move sequence can produce (rights, e.p., bitboards after castling / captures) is what
/// the generators see.
pub fn check_along_game(case: &gen::Game, ctx: &mut Ctx) -> Result<(), String> {
    let g = case.to_gamep()?;
    let mut b = eng::board_from_pos(&g.start);
    for (i, p) in g.positions.iter().enumerate() {
        let want = eng::model_legal_uci(p);
        let got = eng::legal_uci(&mut b);
        let d = dups(&got);
        if !d.is_empty() {
            return Err(format!("after {:?} from {}: generate_legal_moves lists {d:?} more than once", &case.moves[..i], case.start));
        }
        diff("generate_legal_moves", &format!("{} (reached by {:?} from {})", p.fen(), &case.moves[..i], case.start), &got, &want)?;
        let mut filtered = Vec::new();
        for mv in b.generate_pseudo_legal_moves() {
            b.make(mv);
            if b.is_valid() {
                filtered.push(mv.to_uci_string());
            }
            b.unmake(mv);
        }
        diff("pseudo-legal + make/is_valid/unmake", &format!("{} (reached by {:?} from {})", p.fen(), &case.moves[..i], case.start), &filtered, &want)?;
        ctx.evals(1);
        if i > 0 {
            let cl = gen::classify(p);
            if cl.iter().any(|c| matches!(*c, "in_check" | "double_check" | "ep_capture_legal" | "ep_capture_illegal_by_pin_or_check" | "castling_available" | "promotion_available")) {
                ctx.nontrivial((p.fen4(), "history"));
            }
            for c in cl {
                ctx.class(c);
            }
        }
        if i < g.moves.len() {
            let mv = eng::find_pseudo(&b, g.moves[i]).ok_or_else(|| format!("legal move {} not offered in {}", g.moves[i], p.fen()))?;
            b.make(mv);
        }
    }
    ctx.sample(|| serde_json::json!({"start": case.start, "plies": case.moves.len()}));
    Ok(())
}
