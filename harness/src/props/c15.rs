//! C15 — UCI command text is parsed faithfully and never crashes the reader.

use std::str::FromStr;
use std::time::Duration;

use inkayaku_core::constants::{Piece, Square};
use inkayaku_core::fen::Fen;
use inkayaku_uci::parser::CommandParser;
use inkayaku_uci::{Go, UciCommand, UciMove};
use proptest::prelude::*;
use serde::{Deserialize, Serialize};

use crate::gen;
use crate::refmodel::{sq_name, Pos, START_FEN};
use crate::run::{replay_case, run_exhaustive, run_part, Ctx, Part, PartCfg, Property};

pub fn property() -> Property {
    Property {
        id: "C15",
        level: "exploration",
        rule: "(well_formed) command ASTs drawn from the UCI grammar (all 11 commands; go with any subset and order of its 12 parameters; position startpos|fen with 0..30 and, in one case of 13, 200..700 moves; line terminator none / LF / CR LF / CR left on the line; multi-word names / values / codes) rendered with random runs of spaces and compared with an independently built expected UciCommand; (moves) ALL 64x64x7 move texts round-trip, complete enumeration; (ill_formed) one fault per case from 9 classes must give Err; (total) arbitrary Unicode strings and token-level mutations of valid lines never panic. Non-trivial = distinct line text with >= 2 go parameters or a move list or multi-word operands (well-formed), every faulty / mutated line (others)",
        assumptions: &["tokens are separated by spaces only (the parser splits on ' '); trailing extra tokens after complete simple commands are accepted by the crate's own tests and are not generated as faults"],
        parts: vec![
            Part {
                name: "well_formed",
                quick: 150_000,
                thorough: 2_000_000,
                single_shard: false, supplementary: false,
                run: |cfg| run_part(cfg, ast_strategy(), |a| a.clone(), check_well_formed),
                replay: |v| replay_case::<Ast, _>(v, check_well_formed),
            },
            Part {
                name: "moves",
                quick: 0,
                thorough: 0,
                single_shard: false, supplementary: false,
                run: run_moves,
                replay: |v| replay_case::<MoveText, _>(v, check_move_text),
            },
            Part {
                // every Unicode scalar value at every position of a 5-character move text: accepted exactly when the
                // text is a move text (complete enumeration, 5 x 1,112,064 texts)
                name: "move_char_substitutions",
                quick: 0,
                thorough: 0,
                single_shard: false, supplementary: false,
                run: run_substitutions,
                replay: |v| replay_case::<SubstCase, _>(v, check_substitution),
            },
            Part {
                name: "ill_formed",
                quick: 150_000,
                thorough: 2_000_000,
                single_shard: false, supplementary: false,
                run: |cfg| run_part(cfg, (ast_strategy(), 0..N_FAULTS, any::<u32>(), any::<u32>()), |(a, c, x, y)| faulty(a, *c, *x, *y), check_ill_formed),
                replay: |v| replay_case::<Faulty, _>(v, check_ill_formed),
            },
            Part {
                name: "total",
                quick: 300_000,
                thorough: 4_000_000,
                single_shard: false, supplementary: false,
                run: |cfg| run_part(cfg, total_strategy(), |s| Line { text: s.clone() }, check_total),
                replay: |v| replay_case::<Line, _>(v, check_total),
            },
            crate::props::fuzz_corpus_part!("uci_line"),
        ],
    }
}

// ------------------------------------------------------------------------------------------------
// AST of GUI-to-engine commands

#[derive(Debug, Clone, Serialize, Deserialize, PartialEq)]
pub enum GoParam {
    SearchMoves(Vec<String>),
    Ponder,
    WTime(i64),
    BTime(i64),
    WInc(i64),
    BInc(i64),
    MovesToGo(u64),
    Depth(u64),
    Nodes(u64),
    Mate(u64),
    MoveTime(i64),
    Infinite,
}

impl GoParam {
    fn key(&self) -> &'static str {
        match self {
            GoParam::SearchMoves(_) => "searchmoves",
            GoParam::Ponder => "ponder",
            GoParam::WTime(_) => "wtime",
            GoParam::BTime(_) => "btime",
            GoParam::WInc(_) => "winc",
            GoParam::BInc(_) => "binc",
            GoParam::MovesToGo(_) => "movestogo",
            GoParam::Depth(_) => "depth",
            GoParam::Nodes(_) => "nodes",
            GoParam::Mate(_) => "mate",
            GoParam::MoveTime(_) => "movetime",
            GoParam::Infinite => "infinite",
        }
    }
}

#[derive(Debug, Clone, Serialize, Deserialize, PartialEq)]
pub enum Cmd {
    Uci,
    Debug(bool),
    IsReady,
    SetOption { name: Vec<String>, value: Option<Vec<String>> },
    RegisterLater,
    Register { name: Vec<String>, code: Vec<String> },
    UciNewGame,
    Position { fen: Option<String>, moves: Vec<String> },
    Go(Vec<GoParam>),
    Stop,
    PonderHit,
    Quit,
}

#[derive(Debug, Clone, Serialize, Deserialize, PartialEq)]
pub struct Ast {
    pub cmd: Cmd,
    /// widths of the space runs: before the line, between tokens (cyclic), after the line
    pub spaces: Vec<u8>,
    /// explicitly write "moves" even when the list is empty
    pub moves_keyword: bool,
    /// line terminator left on the line (what read_line() delivers; "'\\n' can be 0x0d or 0x0a0d or any combination
    /// depending on your OS", UCI specification): 0 none, 1 LF, 2 CR LF, 3 CR
    #[serde(default)]
    pub eol: u8,
}

const KEYWORDS: [&str; 30] = ["name", "value", "code", "later", "moves", "fen", "startpos", "on", "off", "searchmoves", "ponder", "wtime", "btime", "winc", "binc", "movestogo", "depth", "nodes", "mate", "movetime", "infinite", "uci", "go", "stop", "quit", "debug", "position", "register", "setoption", "isready"];

fn word() -> impl Strategy<Value = String> {
    prop_oneof![
        4 => "[A-Za-z0-9_.:/+-]{1,8}",
        1 => "[A-Za-z]{1,3}[0-9]{0,3}",
        1 => proptest::sample::select(vec!["Hash", "Threads", "Stefan", "MK", "4359874324", "Clear", "UCI_Chess960", "true", "128", "ü", "名前"]).prop_map(str::to_string),
    ]
    .prop_filter("keyword", |w| !KEYWORDS.contains(&w.as_str()))
}

fn words(max: usize) -> impl Strategy<Value = Vec<String>> {
    proptest::collection::vec(word(), 1..=max)
}

/// any syntactically well-formed move text (not necessarily legal anywhere)
fn move_text() -> impl Strategy<Value = String> {
    (0..64u8, 0..64u8, 0..8u8).prop_map(|(a, b, p)| format!("{}{}{}", sq_name(a), sq_name(b), ["", "", "", "q", "r", "b", "n", "k"][p as usize]))
}

fn millis() -> impl Strategy<Value = i64> {
    prop_oneof![
        4 => 0..3_600_000i64,
        1 => proptest::sample::select(vec![0i64, 1, -1, -60000, i64::MAX, i64::MIN, 9_007_199_254_740_993]),
        1 => any::<i64>(),
    ]
}

fn count() -> impl Strategy<Value = u64> {
    prop_oneof![
        4 => 0..1000u64,
        1 => proptest::sample::select(vec![0u64, 1, u64::MAX, u32::MAX as u64 + 1]),
        1 => any::<u64>(),
    ]
}

fn go_param(i: u8) -> BoxedStrategy<GoParam> {
    match i {
        0 => proptest::collection::vec(move_text(), 0..5).prop_map(GoParam::SearchMoves).boxed(),
        1 => Just(GoParam::Ponder).boxed(),
        2 => millis().prop_map(GoParam::WTime).boxed(),
        3 => millis().prop_map(GoParam::BTime).boxed(),
        4 => millis().prop_map(GoParam::WInc).boxed(),
        5 => millis().prop_map(GoParam::BInc).boxed(),
        6 => count().prop_map(GoParam::MovesToGo).boxed(),
        7 => count().prop_map(GoParam::Depth).boxed(),
        8 => count().prop_map(GoParam::Nodes).boxed(),
        9 => count().prop_map(GoParam::Mate).boxed(),
        10 => millis().prop_map(GoParam::MoveTime).boxed(),
        _ => Just(GoParam::Infinite).boxed(),
    }
}

fn go_strategy() -> impl Strategy<Value = Vec<GoParam>> {
    // a subset of the 12 parameters in a generated order
    (proptest::bits::u16::masked(0x0fff), any::<u64>()).prop_flat_map(|(mask, order)| {
        let mut idx: Vec<u8> = (0..12u8).filter(|i| mask & (1 << i) != 0).collect();
        // permutation from the generated key (insertion by rotating positions)
        let mut key = order;
        let mut perm: Vec<u8> = Vec::new();
        while !idx.is_empty() {
            let k = (key % idx.len() as u64) as usize;
            key /= 13;
            perm.push(idx.remove(k));
        }
        perm.into_iter().map(go_param).collect::<Vec<_>>()
    })
}

fn fen_strategy() -> impl Strategy<Value = Option<String>> {
    prop_oneof![
        1 => Just(None),
        2 => (gen::raw_pos(30), any::<bool>()).prop_map(|(r, four)| {
            let p = gen::position(&r, gen::ClockDomain::Keep);
            Some(if four { p.fen4() } else { p.fen() })
        }),
    ]
}

fn cmd_strategy() -> impl Strategy<Value = Cmd> {
    prop_oneof![
        1 => Just(Cmd::Uci),
        1 => any::<bool>().prop_map(Cmd::Debug),
        1 => Just(Cmd::IsReady),
        2 => (words(3), proptest::option::of(words(4))).prop_map(|(name, value)| Cmd::SetOption { name, value }),
        1 => Just(Cmd::RegisterLater),
        2 => (words(3), words(3)).prop_map(|(name, code)| Cmd::Register { name, code }),
        1 => Just(Cmd::UciNewGame),
        5 => (fen_strategy(), prop_oneof![12 => proptest::collection::vec(move_text(), 0..30), 1 => proptest::collection::vec(move_text(), 200..700)]).prop_map(|(fen, moves)| Cmd::Position { fen, moves }),
        8 => go_strategy().prop_map(Cmd::Go),
        1 => Just(Cmd::Stop),
        1 => Just(Cmd::PonderHit),
        1 => Just(Cmd::Quit),
    ]
}

fn ast_strategy() -> impl Strategy<Value = Ast> {
    (cmd_strategy(), proptest::collection::vec(prop_oneof![3 => Just(1u8), 1 => 1..5u8], 1..6), 0..3u8, any::<bool>(), prop_oneof![3 => Just(0u8), 1 => 1..4u8]).prop_map(|(cmd, mut spaces, lead, moves_keyword, eol)| {
        spaces.insert(0, lead);
        Ast { cmd, spaces, moves_keyword, eol }
    })
}

pub fn tokens(a: &Ast) -> Vec<String> {
    let mut t: Vec<String> = Vec::new();
    let mut push = |s: &str| t.push(s.to_string());
    match &a.cmd {
        Cmd::Uci => push("uci"),
        Cmd::Debug(on) => {
            push("debug");
            push(if *on { "on" } else { "off" });
        }
        Cmd::IsReady => push("isready"),
        Cmd::SetOption { name, value } => {
            push("setoption");
            push("name");
            name.iter().for_each(|w| push(w));
            if let Some(v) = value {
                push("value");
                v.iter().for_each(|w| push(w));
            }
        }
        Cmd::RegisterLater => {
            push("register");
            push("later");
        }
        Cmd::Register { name, code } => {
            push("register");
            push("name");
            name.iter().for_each(|w| push(w));
            push("code");
            code.iter().for_each(|w| push(w));
        }
        Cmd::UciNewGame => push("ucinewgame"),
        Cmd::Position { fen, moves } => {
            push("position");
            match fen {
                None => push("startpos"),
                Some(f) => {
                    push("fen");
                    f.split(' ').for_each(|w| push(w));
                }
            }
            if !moves.is_empty() || a.moves_keyword {
                push("moves");
            }
            moves.iter().for_each(|w| push(w));
        }
        Cmd::Go(params) => {
            push("go");
            for p in params {
                push(p.key());
                match p {
                    GoParam::SearchMoves(m) => m.iter().for_each(|w| push(w)),
                    GoParam::WTime(v) | GoParam::BTime(v) | GoParam::WInc(v) | GoParam::BInc(v) | GoParam::MoveTime(v) => push(&v.to_string()),
                    GoParam::MovesToGo(v) | GoParam::Depth(v) | GoParam::Nodes(v) | GoParam::Mate(v) => push(&v.to_string()),
                    GoParam::Ponder | GoParam::Infinite => {}
                }
            }
        }
        Cmd::Stop => push("stop"),
        Cmd::PonderHit => push("ponderhit"),
        Cmd::Quit => push("quit"),
    }
    t
}

pub fn render_tokens(t: &[String], spaces: &[u8]) -> String {
    let mut s = String::new();
    let lead = spaces.first().copied().unwrap_or(0);
    s.push_str(&" ".repeat(lead as usize));
    let gaps = &spaces[1.min(spaces.len())..];
    for (i, tok) in t.iter().enumerate() {
        if i > 0 {
            let w = if gaps.is_empty() { 1 } else { gaps[(i - 1) % gaps.len()].max(1) };
            s.push_str(&" ".repeat(w as usize));
        }
        s.push_str(tok);
    }
    if lead % 2 == 1 {
        s.push(' ');
    }
    s
}

pub fn render(a: &Ast) -> String {
    let mut l = render_tokens(&tokens(a), &a.spaces);
    l.push_str(["", "\n", "\r\n", "\r"][(a.eol % 4) as usize]);
    l
}

fn expect_move(text: &str) -> Result<UciMove, String> {
    let b = text.as_bytes();
    let sq = |f: u8, r: u8| -> Option<Square> {
        // independent of Square::from_chars: index = file + 8 * (8 - rank)
        if !(b'a'..=b'h').contains(&f) || !(b'1'..=b'8').contains(&r) {
            return None;
        }
        Square::from_index((f - b'a') as usize + 8 * (8 - (r - b'0') as usize))
    };
    if b.len() < 4 || b.len() > 5 {
        return Err(format!("HARNESS: generated move text {text:?} malformed"));
    }
    let source = sq(b[0], b[1]).ok_or("HARNESS: bad source")?;
    let target = sq(b[2], b[3]).ok_or("HARNESS: bad target")?;
    let promote_to = if b.len() == 5 {
        Some(match b[4] {
            b'q' => Piece::QUEEN,
            b'r' => Piece::ROOK,
            b'b' => Piece::BISHOP,
            b'n' => Piece::KNIGHT,
            b'k' => Piece::KING,
            b'p' => Piece::PAWN,
            _ => return Err("HARNESS: bad promotion letter".into()),
        })
    } else {
        None
    };
    Ok(UciMove { source, target, promote_to })
}

fn dur(v: i64) -> Option<Duration> {
    Some(Duration::from_millis(v.max(0) as u64))
}

pub fn expected(a: &Ast) -> Result<UciCommand, String> {
    Ok(match &a.cmd {
        Cmd::Uci => UciCommand::Uci,
        Cmd::Debug(d) => UciCommand::SetDebug { debug: *d },
        Cmd::IsReady => UciCommand::IsReady,
        Cmd::SetOption { name, value: None } => UciCommand::SetOption { name: name.join(" ") },
        Cmd::SetOption { name, value: Some(v) } => UciCommand::SetOptionValue { name: name.join(" "), value: v.join(" ") },
        Cmd::RegisterLater => UciCommand::RegisterLater,
        Cmd::Register { name, code } => UciCommand::Register { name: name.join(" "), code: code.join(" ") },
        Cmd::UciNewGame => UciCommand::UciNewGame,
        Cmd::Position { fen, moves } => {
            let text = fen.clone().unwrap_or_else(|| START_FEN.to_string());
            let f = Fen::from_str(&text).map_err(|e| format!("HARNESS: generated FEN rejected {text}: {e:?}"))?;
            UciCommand::PositionFrom { fen: f, moves: moves.iter().map(|m| expect_move(m)).collect::<Result<Vec<_>, _>>()? }
        }
        Cmd::Go(params) => {
            let mut go = Go::default();
            for p in params {
                match p {
                    GoParam::SearchMoves(m) => go.search_moves = m.iter().map(|m| expect_move(m)).collect::<Result<Vec<_>, _>>()?,
                    GoParam::Ponder => go.ponder = true,
                    GoParam::WTime(v) => go.white_time = dur(*v),
                    GoParam::BTime(v) => go.black_time = dur(*v),
                    GoParam::WInc(v) => go.white_increment = dur(*v),
                    GoParam::BInc(v) => go.black_increment = dur(*v),
                    GoParam::MovesToGo(v) => go.moves_to_go = Some(*v),
                    GoParam::Depth(v) => go.depth = Some(*v),
                    GoParam::Nodes(v) => go.nodes = Some(*v),
                    GoParam::Mate(v) => go.mate = Some(*v),
                    GoParam::MoveTime(v) => go.move_time = dur(*v),
                    GoParam::Infinite => go.infinite = true,
                }
            }
            UciCommand::Go { go }
        }
        Cmd::Stop => UciCommand::Stop,
        Cmd::PonderHit => UciCommand::PonderHit,
        Cmd::Quit => UciCommand::Quit,
    })
}

pub fn check_well_formed(a: &Ast, ctx: &mut Ctx) -> Result<(), String> {
    let line = render(a);
    let want = expected(a)?;
    let got = CommandParser::new(&line).parse();
    match got {
        Ok(cmd) if cmd == want => {}
        Ok(cmd) => return Err(format!("line {line:?} parsed as {cmd:?}, it spells {want:?}")),
        Err(e) => return Err(format!("well-formed line {line:?} rejected: {e:?}")),
    }
    let (class, nt) = match &a.cmd {
        Cmd::Go(p) => ("go", p.len() >= 2),
        Cmd::Position { moves, fen } => (if fen.is_some() { "position_fen" } else { "position_startpos" }, !moves.is_empty()),
        Cmd::SetOption { name, value } => ("setoption", name.len() > 1 || value.as_ref().map_or(false, |v| v.len() > 1)),
        Cmd::Register { name, code } => ("register", name.len() > 1 || code.len() > 1),
        _ => ("simple", false),
    };
    ctx.class(class);
    if a.eol % 4 != 0 {
        ctx.class(["", "line_ends_with_lf", "line_ends_with_crlf", "line_ends_with_cr"][(a.eol % 4) as usize]);
    }
    if let Cmd::Position { moves, .. } = &a.cmd {
        if moves.len() > 256 {
            ctx.class("position_with_more_than_256_moves");
        }
    }
    if let Cmd::Go(p) = &a.cmd {
        ctx.class(&format!("go_with_{}_params", p.len()));
    }
    if nt {
        ctx.nontrivial(&line);
    }
    ctx.sample(|| serde_json::json!({"line": line}));
    Ok(())
}

// ------------------------------------------------------------------------------------------------

#[derive(Debug, Clone, Serialize, Deserialize)]
pub struct MoveText {
    pub text: String,
}

fn run_moves(cfg: &PartCfg) -> crate::run::PartOutcome {
    const LETTERS: [&str; 7] = ["", "q", "r", "b", "n", "k", "p"];
    let (shard, n) = (cfg.shard, cfg.nshards);
    let mut all: Vec<MoveText> = Vec::new();
    for a in (0..64u8).filter(|a| (*a as u32) % n == shard) {
        for b in 0..64u8 {
            for l in LETTERS {
                all.push(MoveText { text: format!("{}{}{}", sq_name(a), sq_name(b), l) });
            }
        }
    }
    let it = all.into_iter();
    run_exhaustive(cfg, it, check_move_text)
}

#[derive(Debug, Clone, Serialize, Deserialize)]
pub struct SubstCase {
    pub pos: u8,
    pub ch: u32,
}

fn run_substitutions(cfg: &PartCfg) -> crate::run::PartOutcome {
    let (shard, n) = (cfg.shard, cfg.nshards);
    let it = (0..5u8).flat_map(move |pos| (0..=0x10FFFFu32).filter(move |c| c % n == shard && char::from_u32(*c).is_some()).map(move |ch| SubstCase { pos, ch }));
    run_exhaustive(cfg, it, check_substitution)
}

pub fn check_substitution(c: &SubstCase, ctx: &mut Ctx) -> Result<(), String> {
    let ch = char::from_u32(c.ch).ok_or("HARNESS: not a scalar value")?;
    let mut cs: Vec<char> = "e7e8q".chars().collect();
    cs[c.pos as usize] = ch;
    let text: String = cs.into_iter().collect();
    let is_move_text = match c.pos {
        0 | 2 => ('a'..='h').contains(&ch),
        1 | 3 => ('1'..='8').contains(&ch),
        _ => "qrbnkp".contains(ch),
    };
    // upper-case ASCII promotion letters are read like the lower-case ones by the code as it stands (Piece::from_char);
    // the property does not say whether that is a move text: either answer is accepted, but not a different move
    if c.pos == 4 && "QRBNKP".contains(ch) {
        if let Ok(m) = UciMove::from_str(&text) {
            if m != expect_move(&text.to_lowercase())? {
                return Err(format!("move text {text:?} parsed as {m:?}"));
            }
        }
        ctx.class("upper_case_promotion_letter_not_asserted");
        return Ok(());
    }
    match (UciMove::from_str(&text), is_move_text) {
        (Ok(m), true) => {
            if m != expect_move(&text)? || m.to_string() != text {
                return Err(format!("move text {text:?} parsed as {m:?}"));
            }
            ctx.class("accepted");
        }
        (Err(_), false) => {
            if !ch.is_ascii() && ctx.evaluations % 4096 == 0 {
                ctx.nontrivial(&text);
            }
        }
        (Ok(m), false) => return Err(format!("{text:?} (U+{:04X} at index {}) is no move text but is accepted as {m:?} ({m})", c.ch, c.pos)),
        (Err(e), true) => return Err(format!("well-formed move text {text:?} rejected: {e:?}")),
    }
    Ok(())
}

pub fn check_move_text(c: &MoveText, ctx: &mut Ctx) -> Result<(), String> {
    let want = expect_move(&c.text)?;
    let got = UciMove::from_str(&c.text).map_err(|e| format!("well-formed move text {:?} rejected: {e:?}", c.text))?;
    if got != want {
        return Err(format!("move text {:?} parsed as {got:?}", c.text));
    }
    let shown = got.to_string();
    if shown != c.text {
        return Err(format!("move {:?} is formatted as {shown:?}", c.text));
    }
    let again = UciMove::from_str(&shown).map_err(|e| format!("formatted move {shown:?} does not parse: {e:?}"))?;
    if again != got {
        return Err(format!("formatting and re-parsing {:?} gives a different move", c.text));
    }
    ctx.nontrivial(&c.text);
    ctx.sample(|| serde_json::json!({"move": c.text}));
    Ok(())
}

// ------------------------------------------------------------------------------------------------

pub const N_FAULTS: u32 = 9;

#[derive(Debug, Clone, Serialize, Deserialize)]
pub struct Faulty {
    pub class: String,
    pub line: String,
}

const BAD_MOVES: [&str; 20] = ["e2", "e2e", "e", "i2e4", "e2i4", "e9e4", "e2e9", "e0e4", "e7e8x", "e7e8=", "e7e8qq", "e2e4e5", "A1a2", "1234", "e2-e4", "E2E4", "e2e4 q", "е2е4", "e٣e4", "0000"];
const BAD_NUMBERS: [&str; 10] = ["x", "1.5", "1e3", "", "99999999999999999999999", "0x10", "١٢", "--1", "1_000", "ten"];

fn faulty(a: &Ast, class: u32, x: u32, y: u32) -> Faulty {
    let pick = |n: usize, v: u32| v as usize % n.max(1);
    let sp = &a.spaces;
    let (name, line): (&str, String) = match class {
        0 => {
            // unknown / capitalised / foreign first word
            let mut t = tokens(a);
            if x % 7 >= 5 {
                // a word that is no command IN FRONT of a complete well-formed line: the first word decides
                let junk = ["xyzzy", "joho", "please", "info", "bestmove", "Go", "quit!", "#", "1"][pick(9, y)].to_string();
                t.insert(0, junk);
            }
            let first = t[0].clone();
            t[0] = match x % 7 {
                5 | 6 => first.clone(),
                0 => first.to_uppercase(),
                1 => {
                    let mut c = first.chars();
                    c.next().map(|f| f.to_uppercase().collect::<String>() + c.as_str()).unwrap_or_default()
                }
                2 => format!("{first}x"),
                3 => ["xyzzy", "go!", "ucı", "positions", "g", "setoptions", "is ready".split(' ').next().unwrap()][pick(7, y)].to_string(),
                _ => format!("_{first}"),
            };
            ("unknown_first_word", render_tokens(&t, sp))
        }
        1 => {
            // required operand missing at the end of the line
            let l = ["go depth", "go wtime", "go btime", "go winc", "go binc", "go movestogo", "go nodes", "go mate", "go movetime", "position", "position fen", "debug", "setoption", "setoption name", "register", "register name", "register name Stefan", "register name Stefan code", "setoption name Hash value", "go infinite depth", "go ponder wtime"][pick(21, x)];
            ("missing_operand", render_tokens(&l.split(' ').map(str::to_string).collect::<Vec<_>>(), sp))
        }
        2 => {
            let key = ["depth", "nodes", "mate", "movestogo", "wtime", "btime", "winc", "binc", "movetime"][pick(9, x)];
            let bad = BAD_NUMBERS[pick(BAD_NUMBERS.len(), y)];
            let neg = if bad.is_empty() { "-1".to_string() } else { bad.to_string() };
            // "-1" is only a fault for the unsigned parameters
            let val = if bad.is_empty() && pick(9, x) >= 4 { "abc".to_string() } else { neg };
            ("bad_number", render_tokens(&["go".to_string(), key.to_string(), val], sp))
        }
        3 if y % 3 == 0 => {
            // a well-formed move text in which ONE character is replaced by a non-ASCII character whose low
            // 7 / 8 / 16 bits equal the original (catches decoders that truncate the code point)
            let good = ["e2e4", "a7a8q", "h1h8", "b1c3", "g7g8n"][pick(5, x)];
            let mut cs: Vec<char> = good.chars().collect();
            let i = pick(cs.len(), x / 5);
            let c = cs[i] as u32;
            let alias = [c + 0x100, c + 0x200, c + 0x80 + 0x80 * (x / 64 % 3), c + 0x1_0000, c + 0x1F400, c + 0x300][pick(6, x / 32)];
            cs[i] = char::from_u32(alias).unwrap_or('é');
            let tok: String = cs.into_iter().collect();
            let t: Vec<String> = if y % 2 == 0 { vec!["go".into(), "searchmoves".into(), tok] } else { vec!["position".into(), "startpos".into(), "moves".into(), tok] };
            ("bad_move_token_aliasing_char", render_tokens(&t, sp))
        }
        3 if y % 3 == 1 => {
            // ... or by a character that LOOKS like it / case-folds to it (Kelvin sign, Cyrillic and Greek letters,
            // full-width forms, non-ASCII digits): catches decoders that normalise before comparing
            let good = ["e2e4", "a7a8q", "h1h8", "b1c3", "g7g8n", "e7e8k", "d7d8r", "c7c8b", "f2f1p"][pick(9, x)];
            let mut cs: Vec<char> = good.chars().collect();
            let i = pick(cs.len(), x / 9);
            let alts = crate::props::c12::lookalikes(cs[i]);
            if alts.is_empty() {
                cs[i] = 'é';
            } else {
                cs[i] = alts[pick(alts.len(), x / 64)];
            }
            let tok: String = cs.into_iter().collect();
            let t: Vec<String> = if y % 2 == 0 { vec!["go".into(), "searchmoves".into(), tok] } else { vec!["position".into(), "startpos".into(), "moves".into(), tok] };
            ("bad_move_token_lookalike_char", render_tokens(&t, sp))
        }
        3 => {
            let bad = BAD_MOVES[pick(BAD_MOVES.len(), x)];
            let mut t: Vec<String> = if y % 2 == 0 { vec!["go".into(), "searchmoves".into(), "e2e4".into()] } else { vec!["position".into(), "startpos".into(), "moves".into(), "e2e4".into()] };
            for part in bad.split(' ') {
                t.push(part.to_string());
            }
            if y % 4 >= 2 {
                t.push("d7d5".into());
            }
            ("bad_move_token", render_tokens(&t, sp))
        }
        4 => {
            // every FEN fault class of C12, embedded in a position command (with or without a move list)
            let raw = gen::RawPos::Playout(gen::RawPlayout { seed: (x % 60_000) as u16, half: (0, 0), full: (0, 0), flip: x % 2 == 0, choices: vec![(y % 65_536) as u16; (x % 7) as usize] });
            let bad = crate::props::c12::invalid_case(&raw, y % crate::props::c12::N_FAULTS, x / 7, y / 16);
            let mut t: Vec<String> = vec!["position".into(), "fen".into()];
            bad.text.split(' ').filter(|w| !w.is_empty()).for_each(|w| t.push(w.to_string()));
            if y % 2 == 0 {
                t.push("moves".into());
                t.push("e2e4".into());
            }
            // white space faults vanish when the line is tokenised: those classes are not faults of a command line
            if matches!(bad.class.as_str(), "doubled_space") || bad.text.split(' ').filter(|w| !w.is_empty()).count() == 6 && bad.class.starts_with("field_count") {
                ("missing_operand", render_tokens(&["position".to_string(), "fen".to_string()], sp))
            } else {
                ("bad_fen", render_tokens(&t, sp))
            }
        }
        5 => {
            // duplicated go parameter
            let (k, v) = [("depth", "3"), ("wtime", "1000"), ("infinite", ""), ("ponder", ""), ("movetime", "5"), ("searchmoves", "e2e4"), ("nodes", "7"), ("mate", "2"), ("binc", "0"), ("btime", "1"), ("winc", "2"), ("movestogo", "4")][pick(12, x)];
            let mut t: Vec<String> = vec!["go".into(), k.into()];
            // (searchmoves: one occurrence may have an empty list — still the same parameter twice)
            if !v.is_empty() && !(k == "searchmoves" && y % 3 == 0) {
                t.push(v.into());
            }
            if y % 2 == 0 {
                t.push("ponder".into());
                if k == "ponder" {
                    t.pop();
                    t.push("infinite".into());
                }
            }
            t.push(k.into());
            if !v.is_empty() {
                t.push(v.into());
            }
            ("duplicated_go_parameter", render_tokens(&t, sp))
        }
        6 => {
            let l = ["go foo", "go depth 3 bar", "go 3", "position startpos something", "position e2e4", "position moves e2e4", "debug maybe", "debug 1", "setoption Hash", "setoption value 3", "register Stefan", "register code 12"][pick(12, x)];
            ("unexpected_token", render_tokens(&l.split(' ').map(str::to_string).collect::<Vec<_>>(), sp))
        }
        7 => {
            // FEN without the 'moves' keyword before the move list
            ("fen_runs_into_moves", render_tokens(&format!("position fen {} e2e4", Pos::start().fen()).split(' ').map(str::to_string).collect::<Vec<_>>(), sp))
        }
        _ => ("empty_line", " ".repeat(pick(5, x))),
    };
    Faulty { class: name.to_string(), line }
}

pub fn check_ill_formed(c: &Faulty, ctx: &mut Ctx) -> Result<(), String> {
    match CommandParser::new(&c.line).parse() {
        Err(_) => {}
        Ok(cmd) => return Err(format!("ill-formed line ({}) {:?} was accepted and read as {cmd:?}", c.class, c.line)),
    }
    ctx.class(&c.class);
    ctx.nontrivial(&c.line);
    ctx.sample(|| serde_json::json!({"class": c.class, "line": c.line}));
    Ok(())
}

// ------------------------------------------------------------------------------------------------

#[derive(Debug, Clone, Serialize, Deserialize)]
pub struct Line {
    pub text: String,
}

const UCI_DICT: [&str; 40] = [
    "uci", "debug", "on", "off", "isready", "setoption", "name", "value", "register", "later", "code", "ucinewgame", "position", "startpos", "fen", "moves", "go", "searchmoves", "ponder", "wtime", "btime", "winc", "binc", "movestogo", "depth", "nodes", "mate", "movetime", "infinite", "stop", "ponderhit", "quit", "e2e4", "e7e8q", "A1a2", "1234", "-1", "99999999999999999999", "rnbqkbnr/pppppppp/8/8/8/8/PPPPPPPP/RNBQKBNR w KQkq - 0 1", "\t",
];

fn total_strategy() -> impl Strategy<Value = String> {
    prop_oneof![
        1 => any::<String>(),
        2 => proptest::collection::vec(any::<char>(), 0..40).prop_map(|v| v.into_iter().collect::<String>()),
        4 => proptest::collection::vec(prop_oneof![4 => proptest::sample::select(UCI_DICT.to_vec()).prop_map(str::to_string), 1 => "[ -~]{0,6}", 1 => any::<char>().prop_map(|c| c.to_string())], 0..12).prop_map(|v| v.join(" ")),
        // token-level mutation of a valid line
        6 => (ast_strategy(), proptest::collection::vec((any::<u16>(), 0..4u8, 0..UCI_DICT.len(), any::<char>()), 1..4)).prop_map(|(a, muts)| {
            let mut t = tokens(&a);
            for (pos, op, d, ch) in muts {
                let at = pos as usize % (t.len() + 1);
                match op {
                    0 => { if at < t.len() { t[at] = UCI_DICT[d].to_string(); } }
                    1 => t.insert(at, UCI_DICT[d].to_string()),
                    2 => { if at < t.len() { t.remove(at); } }
                    _ => { if at < t.len() { let mut cs: Vec<char> = t[at].chars().collect(); let i = pos as usize % (cs.len() + 1); cs.insert(i, ch); t[at] = cs.into_iter().collect(); } }
                }
            }
            render_tokens(&t, &a.spaces)
        }),
        // very long tokens
        1 => (1..4000usize, any::<char>()).prop_map(|(n, c)| format!("go depth {}", std::iter::repeat(c).take(n).collect::<String>())),
    ]
}

pub fn check_total(c: &Line, ctx: &mut Ctx) -> Result<(), String> {
    let r = CommandParser::new(&c.text).parse();
    let _ = UciMove::from_str(&c.text);
    ctx.class(if r.is_ok() { "accepted" } else { "rejected" });
    ctx.nontrivial(&c.text);
    ctx.sample(|| serde_json::json!({"line": c.text, "accepted": r.is_ok()}));
    Ok(())
}
