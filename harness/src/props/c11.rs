//! C11 — evaluation is colour-symmetric; terminal scores have the right sign.

use inkayaku_engine_core::verif as hooks;
use proptest::prelude::*;
use serde::{Deserialize, Serialize};

use crate::eng;
use crate::engsess::{score_text, GoSpec, Session};
use crate::gen::{self, ClockDomain};
use crate::props::c08::run_search;
use crate::props::PosCase;
use crate::refmodel::{Color, Kind, Pos};
use crate::refsearch::WIN;
use crate::run::{replay_case, run_part, Ctx, Part, Property, HARNESS_PREFIX};

pub fn property() -> Property {
    Property {
        id: "C11",
        level: "exploration",
        rule: "(static) generated positions P of all material profiles and their colour-flipped twins flip(P): static_eval(flip P) == -static_eval(P) (hook, white-centric); (search) `go depth d`, d in 1..3, on P and flip(P) — a quarter of the cases with a (mirrored) shuffling game history so that repetition draws are within reach — with a fresh engine each: identical score / mate distance from the mover's point of view; (terminal) checkmate and stalemate positions of both colours with full-move numbers 1..2000 and half-move clocks 0..150: the evaluator gives a losing mate value to the mated mover (sign by colour), strictly better for the loser the later the mate happens, 0 for stalemate, and score conversion yields negative mate distances for the mated side. Non-trivial = distinct P != flip(P) with non-zero evaluation (static / search), distinct mate or stalemate position (terminal)",
        assumptions: &["static evaluation and score conversion reached through the cfg(inkayaku_verif) hooks"],
        parts: vec![
            Part {
                name: "static",
                quick: 90_000,
                thorough: 12_000_000,
                single_shard: false, supplementary: false,
                run: |cfg| run_part(cfg, gen::raw_pos(100), |r| PosCase { fen: gen::position(r, ClockDomain::EngineQuiet).fen() }, check_static),
                replay: |v| replay_case::<PosCase, _>(v, check_static),
            },
            Part {
                name: "search",
                quick: 1_600,
                thorough: 120_000,
                single_shard: false, supplementary: false,
                run: |cfg| run_part(cfg, (prop_oneof![3 => gen::raw_pos(70), 2 => gen::raw_pos_endgames()], 1..=3u32, 0..4u8, any::<u16>()), |(r, d, h, x)| search_case(r, *d, *h, *x), check_search),
                replay: |v| replay_case::<SearchCase, _>(v, check_search),
            },
            Part {
                name: "terminal",
                quick: 20_000,
                thorough: 1_500_000,
                single_shard: false, supplementary: false,
                run: |cfg| run_part(cfg, (gen::raw_pos_endgames(), any::<u32>()), |(r, f)| TerminalCase { fen: gen::position(r, ClockDomain::EngineQuiet).fen(), fullmove: 1 + f % 2000 }, check_terminal),
                replay: |v| replay_case::<TerminalCase, _>(v, check_terminal),
            },
        ],
    }
}

fn stage_class(p: &Pos) -> &'static str {
    let q = p.count(Color::White, Kind::Queen) + p.count(Color::Black, Kind::Queen);
    let n = p.board.iter().filter(|x| x.is_some()).count();
    if q == 0 {
        "no_queens"
    } else if n <= 10 {
        "queens_few_pieces"
    } else {
        "queens_many_pieces"
    }
}

pub fn check_static(c: &PosCase, ctx: &mut Ctx) -> Result<(), String> {
    let p = Pos::from_fen(&c.fen).ok_or_else(|| format!("{HARNESS_PREFIX} bad fen {}", c.fen))?;
    let f = p.flip();
    let a = hooks::static_eval(&eng::board_from_pos(&p), true);
    let b = hooks::static_eval(&eng::board_from_pos(&f), true);
    if a != -b {
        return Err(format!("static evaluation is not colour-symmetric: {} evaluates to {a}, its colour-flipped twin {} to {b} (should be {})", p.fen(), f.fen(), -a));
    }
    ctx.class(stage_class(&p));
    let asym_queens = (p.count(Color::White, Kind::Queen) > 0) != (p.count(Color::Black, Kind::Queen) > 0);
    if asym_queens {
        ctx.class("queen_on_one_side_only");
    }
    if a != 0 && p.key() != f.key() {
        ctx.nontrivial(p.fen4());
    }
    ctx.sample(|| serde_json::json!({"fen": c.fen, "flipped": f.fen(), "eval": a}));
    Ok(())
}

#[derive(Debug, Clone, Serialize, Deserialize)]
pub struct SearchCase {
    pub fen: String,
    pub depth: u32,
    /// game history (mirrored for the twin): repetition draws must be symmetric too
    #[serde(default)]
    pub history: Vec<String>,
}

fn search_case(r: &gen::RawPos, depth: u32, h: u8, x: u16) -> SearchCase {
    let mut p = gen::position(r, ClockDomain::EngineQuiet);
    let mut history = Vec::new();
    if h == 0 {
        // a shuffled history, so that third occurrences (valued with the contempt offset) are within reach
        p.ep = None;
        if let Some([a, b, a2, b2]) = crate::props::c10::shuffle_quad_pub(&p, x) {
            let n = [6usize, 7, 3][(x % 3) as usize];
            history = [a, b, a2, b2, a, b, a2].iter().take(n).map(|m| m.uci()).collect();
        }
    }
    SearchCase { fen: p.fen(), depth, history }
}

/// the same move on the vertically mirrored board
fn flip_move(m: &str) -> String {
    let b = m.as_bytes();
    let mut out = String::new();
    for i in 0..b.len() {
        if i == 1 || i == 3 {
            out.push((b'1' + (b'8' - b[i])) as char);
        } else {
            out.push(b[i] as char);
        }
    }
    out
}

pub fn check_search(c: &SearchCase, ctx: &mut Ctx) -> Result<(), String> {
    let p = Pos::from_fen(&c.fen).ok_or_else(|| format!("{HARNESS_PREFIX} bad fen {}", c.fen))?;
    let f = p.flip();
    let flipped_history: Vec<String> = c.history.iter().map(|m| flip_move(m)).collect();
    let mut texts = Vec::new();
    for (q, hist) in [(&p, &c.history), (&f, &flipped_history)] {
        let mut s = Session::new();
        let out = run_search(&mut s, &q.fen(), hist, &GoSpec::depth(c.depth as u64))?;
        s.quit()?;
        texts.push(out.last_scored().and_then(|i| i.score).map(|x| score_text(&x)));
    }
    if texts[0] != texts[1] {
        return Err(format!("depth-{} search is not colour-symmetric: {} (history {:?}) scores {:?}, its colour-flipped twin {} (history {:?}) scores {:?}", c.depth, p.fen(), c.history, texts[0], f.fen(), flipped_history, texts[1]));
    }
    ctx.class(&format!("depth_{}", c.depth));
    if !c.history.is_empty() {
        ctx.class("with_repetition_history");
    }
    match &texts[0] {
        Some(t) if t.starts_with("mate -") => ctx.class("being_mated"),
        Some(t) if t.starts_with("mate") => ctx.class("mating"),
        Some(t) if t != "cp 0" => {}
        _ => ctx.class("zero_or_no_score"),
    }
    if p.key() != f.key() && texts[0].as_deref() != Some("cp 0") && texts[0].is_some() {
        ctx.nontrivial((p.fen4(), c.depth));
    }
    ctx.sample(|| serde_json::json!({"fen": c.fen, "depth": c.depth, "score": texts[0]}));
    Ok(())
}

#[derive(Debug, Clone, Serialize, Deserialize)]
pub struct TerminalCase {
    pub fen: String,
    pub fullmove: u32,
}

pub fn check_terminal(c: &TerminalCase, ctx: &mut Ctx) -> Result<(), String> {
    let base = Pos::from_fen(&c.fen).ok_or_else(|| format!("{HARNESS_PREFIX} bad fen {}", c.fen))?;
    // every successor without legal moves is a terminal position of this case, as is its colour twin
    let mut terminals: Vec<Pos> = Vec::new();
    if base.legal_moves().is_empty() {
        terminals.push(base.clone());
    }
    for m in base.legal_moves() {
        let n = base.apply(m);
        if n.legal_moves().is_empty() {
            terminals.push(n);
        }
    }
    for t in terminals.clone() {
        terminals.push(t.flip());
    }
    for (ti, mut t) in terminals.into_iter().enumerate() {
        t.full = c.fullmove as u64;
        // mate and stalemate are what they are at any half-move clock (a mate on the 100th ply is still a mate)
        t.half = [t.half, 0, 50, 99, 100, 101, 150][(c.fullmove as usize + ti) % 7];
        if t.half >= 100 {
            ctx.class("terminal_with_clock_ge_100");
        }
        let mated = t.in_check(t.turn);
        let b = eng::board_from_pos(&t);
        let v = hooks::static_eval(&b, false);
        let what = format!("{} ({})", t.fen(), if mated { "checkmate" } else { "stalemate" });
        if !mated {
            if v != 0 {
                return Err(format!("{what}: evaluated {v}, a stalemate must score as a draw"));
            }
            ctx.class("stalemate");
        } else {
            // white-centric: a mated white is hugely negative, a mated black hugely positive
            let mover_rel = if t.turn == Color::White { v } else { -v };
            if !(mover_rel < -WIN / 2) {
                return Err(format!("{what}: evaluated {v} (white-centric): the mated side to move does not receive a losing mate score"));
            }
            if !hooks::is_checkmate(v) {
                return Err(format!("{what}: evaluated {v}, which the engine itself does not regard as a mate value"));
            }
            // a later mate is better for the loser (nearer mates score better for the winner)
            let mut later = t.clone();
            later.full += 1;
            later.half = t.half;
            let v2 = hooks::static_eval(&eng::board_from_pos(&later), false);
            let mover_rel2 = if t.turn == Color::White { v2 } else { -v2 };
            if !(mover_rel2 > mover_rel) {
                return Err(format!("{what}: the same mate one move later scores {v2} vs {v}: a nearer mate must be worse for the mated side"));
            }
            // score conversion: from the mated mover's point of view the distance is negative / zero moves away
            let text = score_text(&hooks::score_from_value(mover_rel, &b));
            if text != "mate 0" && text != "mate -0" {
                return Err(format!("{what}: the mated side's own score converts to {text:?}, expected a mate in 0"));
            }
            ctx.class(if t.turn == Color::White { "white_mated" } else { "black_mated" });
        }
        ctx.evals(1);
        ctx.nontrivial((t.fen4(), t.full));
    }
    Ok(())
}
