//! One module per property: strategy + oracle + classifier + replay codec.

use crate::run::Property;

pub mod c01;
pub mod c02;
pub mod c03;
pub mod c04;
pub mod c05;
pub mod c06;
pub mod c07;
pub mod c08;
pub mod c09;
pub mod c10;
pub mod c11;
pub mod c12;
pub mod c13;
pub mod c14;
pub mod c15;
pub mod c16;
pub mod c17;
pub mod c18;
pub mod c19;

pub fn all() -> Vec<Property> {
    vec![c01::property(), c02::property(), c03::property(), c04::property(), c05::property(), c06::property(), c07::property(), c08::property(), c09::property(), c10::property(), c11::property(), c12::property(), c13::property(), c14::property(), c15::property(), c16::property(), c17::property(), c18::property(), c19::property()]
}

pub fn by_id(id: &str) -> Option<Property> {
    all().into_iter().find(|p| p.id == id)
}

#[derive(Debug, Clone, serde::Serialize, serde::Deserialize, PartialEq, Eq)]
pub struct PosCase {
    pub fen: String,
}

/// A libFuzzer input (committed corpus file or crash artefact), replayed through the same entry
/// function the fuzz target calls.
#[derive(Debug, Clone, serde::Serialize, serde::Deserialize)]
pub struct FuzzCase {
    pub target: String,
    pub bytes_hex: String,
}

pub fn hex(data: &[u8]) -> String {
    data.iter().map(|b| format!("{b:02x}")).collect()
}

pub fn unhex(s: &str) -> Option<Vec<u8>> {
    if s.len() % 2 != 0 {
        return None;
    }
    (0..s.len()).step_by(2).map(|i| u8::from_str_radix(&s[i..i + 2], 16).ok()).collect()
}

pub fn check_fuzz_case(c: &FuzzCase, ctx: &mut crate::run::Ctx) -> Result<(), String> {
    let data = unhex(&c.bytes_hex).ok_or_else(|| "HARNESS: bad hex in fuzz case".to_string())?;
    crate::fuzz_entry::run(&c.target, &data)?;
    ctx.nontrivial((&c.target, &c.bytes_hex));
    ctx.sample(|| serde_json::json!({"target": c.target, "bytes": data.len(), "text": String::from_utf8_lossy(&data).chars().take(120).collect::<String>()}));
    Ok(())
}

fn corpus_cases(target: &str) -> Vec<FuzzCase> {
    let dir = crate::run::verif_root().join("corpus").join(target);
    let mut files: Vec<std::path::PathBuf> = std::fs::read_dir(&dir).map(|rd| rd.filter_map(|e| e.ok().map(|e| e.path())).collect()).unwrap_or_default();
    files.sort();
    files.iter().filter_map(|f| std::fs::read(f).ok()).map(|d| FuzzCase { target: target.to_string(), bytes_hex: hex(&d) }).collect()
}

macro_rules! fuzz_corpus_part {
    ($target:literal) => {
        crate::run::Part {
            name: concat!("fuzz_corpus_", $target),
            quick: 0,
            thorough: 0,
            single_shard: true,
            supplementary: true,
            run: |cfg| crate::run::run_exhaustive(cfg, crate::props::corpus_cases_pub($target).into_iter(), crate::props::check_fuzz_case),
            replay: |v| crate::run::replay_case::<crate::props::FuzzCase, _>(v, crate::props::check_fuzz_case),
        }
    };
}
pub(crate) use fuzz_corpus_part;

pub fn corpus_cases_pub(target: &str) -> Vec<FuzzCase> {
    corpus_cases(target)
}

/// which libFuzzer target deepens which property in the thorough tier
pub fn fuzz_target_of(id: &str) -> Option<&'static str> {
    match id {
        "C01" => Some("board_ops"),
        "C12" => Some("fen"),
        "C15" => Some("uci_line"),
        "C17" => Some("pgn_stream"),
        _ => None,
    }
}
