//! C06 — position hashes: incremental equals recomputed, and the hash identifies the position.

use std::collections::BTreeMap;

use inkayaku_board::Bitboard;
use serde::{Deserialize, Serialize};

use crate::eng;
use crate::gen::{self, ClockDomain, Game};
use crate::props::c02::special;
use crate::props::PosCase;
use crate::refmodel::{sq, sq_name, Color, Kind, Pos};
use crate::run::{replay_case, run_exhaustive, run_part, Ctx, Part, Property};

pub fn property() -> Property {
    Property {
        id: "C06",
        level: "exploration",
        rule: "(a) hash and pawn hash threaded by xor along whole games (as the search does) vs recomputation after every move, games rooted in seed FENs incl. partial castling rights, promotions, e.p.; (b) equal reference key => equal hash: clock-only variants, positions re-loaded from FEN, and transposing move orders found inside games; (c) single-component changes (side, each right, e.p. file, one piece added / removed / moved) of real positions change the hash; (d) exhaustive: all 781 key-material deltas (768 piece-square, 8 e.p. files, 4 rights, side) obtained through the public API are non-zero and pairwise distinct. Non-trivial = special move (castle/e.p./promotion/right lost), transposition pair or single-component pair, distinct by FEN+move",
        assumptions: &["64-bit collisions between unrelated positions are outside the property's wording"],
        parts: vec![
            Part {
                name: "incremental",
                quick: 6_000,
                thorough: 500_000,
                single_shard: false, supplementary: false,
                run: |cfg| run_part(cfg, gen::raw_playout(200), |r| gen::play(r, ClockDomain::Board).to_game(), check_incremental),
                replay: |v| replay_case::<Game, _>(v, check_incremental),
            },
            Part {
                name: "same_key",
                quick: 6_000,
                thorough: 500_000,
                single_shard: false, supplementary: false,
                run: |cfg| run_part(cfg, gen::raw_playout(120), |r| gen::play(r, ClockDomain::Board).to_game(), check_same_key),
                replay: |v| replay_case::<Game, _>(v, check_same_key),
            },
            Part {
                name: "single_component",
                quick: 30_000,
                thorough: 5_000_000,
                single_shard: false, supplementary: false,
                run: |cfg| run_part(cfg, gen::raw_pos(80), |r| PosCase { fen: gen::position(r, ClockDomain::Keep).fen() }, check_single_component),
                replay: |v| replay_case::<PosCase, _>(v, check_single_component),
            },
            Part {
                name: "key_material",
                quick: 1,
                thorough: 1,
                single_shard: true, supplementary: false,
                run: |cfg| run_exhaustive(cfg, std::iter::once(KeyMaterialCase {}), check_key_material),
                replay: |v| replay_case::<KeyMaterialCase, _>(v, check_key_material),
            },
        ],
    }
}

pub fn check_incremental(case: &Game, ctx: &mut Ctx) -> Result<(), String> {
    let g = case.to_gamep()?;
    let mut b = eng::board_from_pos(&g.start);
    let mut h = b.calculate_zobrist_hash();
    let mut ph = b.calculate_zobrist_pawn_hash();
    for (i, &m) in g.moves.iter().enumerate() {
        let p = &g.positions[i];
        let mv = eng::find_move(&mut b, m).ok_or_else(|| format!("legal move {m} not offered in {} (see C01)", p.fen()))?;
        let (x, px) = Bitboard::zobrist_xor(mv);
        h ^= x;
        ph ^= px;
        b.make(mv);
        if h != b.calculate_zobrist_hash() {
            return Err(format!("ply {}: hash updated incrementally over {m} from {} differs from the hash recomputed for the result {}", i + 1, p.fen(), g.positions[i + 1].fen()));
        }
        if ph != b.calculate_zobrist_pawn_hash() {
            return Err(format!("ply {}: pawn hash updated incrementally over {m} from {} differs from the recomputed one", i + 1, p.fen()));
        }
        // the same position loaded from text must hash identically (hash depends on the position only)
        let reloaded = eng::board_from_pos(&g.positions[i + 1]);
        if reloaded.calculate_zobrist_hash() != h || reloaded.calculate_zobrist_pawn_hash() != ph {
            return Err(format!("ply {}: position {} hashes differently when reached by {m} and when loaded from FEN", i + 1, g.positions[i + 1].fen()));
        }
        ctx.evals(1);
        if let Some(c) = special(p, m) {
            if c != "clock_ge_100" {
                ctx.class(c);
                ctx.nontrivial((p.fen4(), m));
            }
        }
    }
    ctx.sample(|| serde_json::json!({"start": case.start, "plies": case.moves.len()}));
    Ok(())
}

pub fn check_same_key(case: &Game, ctx: &mut Ctx) -> Result<(), String> {
    let g = case.to_gamep()?;
    // group all positions of the game by reference key: equal key must mean equal hash
    let mut by_key: BTreeMap<crate::refmodel::Key, (u64, u64, String)> = BTreeMap::new();
    for p in &g.positions {
        let b = eng::board_from_pos(p);
        let (h, ph) = (b.calculate_zobrist_hash(), b.calculate_zobrist_pawn_hash());
        if let Some((h0, ph0, fen0)) = by_key.get(&p.key()) {
            if *h0 != h || *ph0 != ph {
                return Err(format!("same position, different hash: {} vs {}", fen0, p.fen()));
            }
            ctx.class("repeated_position_in_game");
            ctx.nontrivial((p.fen4(), "repeat"));
        } else {
            by_key.insert(p.key(), (h, ph, p.fen()));
        }
        // clock-only variant
        let mut q = p.clone();
        q.half = (p.half + 37) % 1000;
        q.full = p.full % 1000 + 5;
        let bq = eng::board_from_pos(&q);
        if bq.calculate_zobrist_hash() != h || bq.calculate_zobrist_pawn_hash() != ph {
            return Err(format!("hash depends on the clocks: {} vs {}", p.fen(), q.fen()));
        }
        ctx.evals(1);
    }
    // transpositions: swap two moves of the same side around the opponent's reply
    for i in 0..g.moves.len().saturating_sub(2) {
        let p = &g.positions[i];
        let (a, r, c) = (g.moves[i], g.moves[i + 1], g.moves[i + 2]);
        if !p.is_legal(c) {
            continue;
        }
        let p1 = p.apply(c);
        if !p1.is_legal(r) {
            continue;
        }
        let p2 = p1.apply(r);
        if !p2.is_legal(a) {
            continue;
        }
        let alt = p2.apply(a);
        let orig = &g.positions[i + 3];
        if alt.key() != orig.key() || a == c {
            continue;
        }
        // reach both through make() on engine boards
        let mut b1 = eng::board_from_pos(p);
        for m in [a, r, c] {
            let mv = eng::find_move(&mut b1, m).ok_or_else(|| format!("legal move {m} not offered (see C01)"))?;
            b1.make(mv);
        }
        let mut b2 = eng::board_from_pos(p);
        for m in [c, r, a] {
            let mv = eng::find_move(&mut b2, m).ok_or_else(|| format!("legal move {m} not offered (see C01)"))?;
            b2.make(mv);
        }
        if b1.calculate_zobrist_hash() != b2.calculate_zobrist_hash() || b1.calculate_zobrist_pawn_hash() != b2.calculate_zobrist_pawn_hash() {
            return Err(format!("transposition hashes differ: from {} the orders {a} {r} {c} and {c} {r} {a} reach the same position {}", p.fen(), orig.fen4()));
        }
        ctx.class("transposition_pair");
        ctx.nontrivial((p.fen4(), a, r, c));
        ctx.evals(1);
    }
    ctx.sample(|| serde_json::json!({"start": case.start, "plies": case.moves.len()}));
    Ok(())
}

fn hash_of_fen(fen: &str) -> Result<(u64, u64), String> {
    let b = eng::board_from_fen(fen).ok_or_else(|| format!("HARNESS: engine rejects variant FEN {fen}"))?;
    Ok((b.calculate_zobrist_hash(), b.calculate_zobrist_pawn_hash()))
}

pub fn check_single_component(case: &PosCase, ctx: &mut Ctx) -> Result<(), String> {
    let p = Pos::from_fen(&case.fen).ok_or_else(|| format!("HARNESS: bad case fen {}", case.fen))?;
    let (h, _) = hash_of_fen(&p.fen())?;
    let mut variants: Vec<(String, Pos)> = Vec::new();
    // side to move
    let mut q = p.clone();
    q.turn = q.turn.other();
    variants.push(("side to move".into(), q));
    // each castling right
    for i in 0..4 {
        let mut q = p.clone();
        q.castle[i] = !q.castle[i];
        variants.push((format!("castling right {}", ["K", "Q", "k", "q"][i]), q));
    }
    // e.p. file: clear, or set on every file of the proper rank
    let rank = if p.turn == Color::White { 5 } else { 2 };
    if p.ep.is_some() {
        let mut q = p.clone();
        q.ep = None;
        variants.push(("e.p. cleared".into(), q));
    }
    for f in 0..8 {
        let e = sq(f, rank);
        if p.ep.map(|x| x % 8) != Some(e % 8) {
            let mut q = p.clone();
            q.ep = Some(e);
            variants.push((format!("e.p. file set to {}", sq_name(e)), q));
        }
    }
    // one piece removed / added / moved / recoloured / changed in kind
    let occupied: Vec<u8> = (0..64u8).filter(|&s| p.board[s as usize].is_some()).collect();
    let empty: Vec<u8> = (0..64u8).filter(|&s| p.board[s as usize].is_none()).collect();
    for &s in &occupied {
        let (c, k) = p.board[s as usize].unwrap();
        let mut q = p.clone();
        q.board[s as usize] = None;
        variants.push((format!("piece removed from {}", sq_name(s)), q));
        let mut q = p.clone();
        q.board[s as usize] = Some((c.other(), k));
        variants.push((format!("piece on {} recoloured", sq_name(s)), q));
        let k2 = Kind::ALL[(Kind::ALL.iter().position(|x| *x == k).unwrap() + 1 + (s as usize % 5)) % 6];
        if k2 != k {
            let mut q = p.clone();
            q.board[s as usize] = Some((c, k2));
            variants.push((format!("piece on {} changed kind", sq_name(s)), q));
        }
        if let Some(&t) = empty.get((s as usize * 7) % empty.len().max(1)) {
            let mut q = p.clone();
            q.board[s as usize] = None;
            q.board[t as usize] = Some((c, k));
            variants.push((format!("piece moved {} -> {}", sq_name(s), sq_name(t)), q));
        }
    }
    for (i, &t) in empty.iter().enumerate().filter(|(i, _)| i % 5 == 0) {
        let mut q = p.clone();
        q.board[t as usize] = Some((if i % 2 == 0 { Color::White } else { Color::Black }, Kind::ALL[i % 6]));
        variants.push((format!("piece added on {}", sq_name(t)), q));
    }
    for (what, q) in &variants {
        let (hq, _) = hash_of_fen(&q.fen())?;
        if hq == h {
            return Err(format!("hash unchanged although exactly one component differs ({what}): {} vs {}", p.fen(), q.fen()));
        }
        ctx.evals(1);
    }
    ctx.class_n("variants", variants.len() as u64);
    ctx.nontrivial(p.fen4());
    ctx.sample(|| serde_json::json!({"fen": case.fen, "single_component_variants": variants.len()}));
    Ok(())
}

#[derive(Debug, Clone, Serialize, Deserialize)]
pub struct KeyMaterialCase {}

pub fn check_key_material(_: &KeyMaterialCase, ctx: &mut Ctx) -> Result<(), String> {
    let base = Pos::empty();
    let (h0, _) = hash_of_fen(&base.fen())?;
    let mut deltas: BTreeMap<u64, String> = BTreeMap::new();
    let mut add = |name: String, d: u64, ctx: &mut Ctx| -> Result<(), String> {
        if d == 0 {
            return Err(format!("hash key for {name} is zero: the component does not influence the hash"));
        }
        if let Some(other) = deltas.get(&d) {
            return Err(format!("hash keys for {name} and {other} are identical"));
        }
        deltas.insert(d, name.clone());
        ctx.evals(1);
        ctx.nontrivial(name);
        Ok(())
    };
    for c in [Color::White, Color::Black] {
        for k in Kind::ALL {
            for s in 0..64u8 {
                let mut q = base.clone();
                q.board[s as usize] = Some((c, k));
                let (h, _) = hash_of_fen(&q.fen())?;
                add(format!("{c:?} {k:?} on {}", sq_name(s)), h ^ h0, ctx)?;
            }
        }
    }
    let mut q = base.clone();
    q.turn = Color::Black;
    let (hb, _) = hash_of_fen(&q.fen())?;
    add("side to move".into(), hb ^ h0, ctx)?;
    for i in 0..4 {
        let mut q = base.clone();
        q.castle[i] = true;
        let (h, _) = hash_of_fen(&q.fen())?;
        add(format!("castling right {}", ["K", "Q", "k", "q"][i]), h ^ h0, ctx)?;
    }
    for f in 0..8 {
        let mut q = base.clone();
        q.ep = Some(sq(f, 5));
        let (h6, _) = hash_of_fen(&q.fen())?;
        add(format!("e.p. file {}", (b'a' + f as u8) as char), h6 ^ h0, ctx)?;
        // the same file on the other e.p. rank (black to move) must contribute the same key
        let mut q3 = base.clone();
        q3.turn = Color::Black;
        q3.ep = Some(sq(f, 2));
        let (h3, _) = hash_of_fen(&q3.fen())?;
        if h3 ^ hb != h6 ^ h0 {
            return Err(format!("e.p. key of file {} differs between rank 3 and rank 6", (b'a' + f as u8) as char));
        }
    }
    ctx.class_n("distinct_nonzero_keys", deltas.len() as u64);
    ctx.sample(|| serde_json::json!({"keys_checked": deltas.len(), "expected": 781}));
    if deltas.len() != 781 {
        return Err(format!("HARNESS: enumerated {} keys, expected 781", deltas.len()));
    }
    Ok(())
}
