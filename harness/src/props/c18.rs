//! C18 — the transposition store is a bounded FIFO map (model-based).

use std::collections::{BTreeMap, VecDeque};

use inkayaku_engine_core::verif::VerifTable;
use proptest::prelude::*;
use serde::{Deserialize, Serialize};

use crate::run::{replay_case, run_part, Ctx, Part, Property};

pub fn property() -> Property {
    Property {
        id: "C18",
        level: "exploration",
        rule: "operation histories put(k,v) / get(k) / clear / len / load_factor over a key universe of 12 (so re-insertion of present and of evicted keys is dense) and capacities 1..8 (mostly) and 9 .. 10,000 (with long runs of fresh keys that fill them past capacity), up to 60 (quick) / 200 (thorough) operations; oracle = reference FIFO map (queue of first insertions + map; a re-put keeps its queue position; the oldest present key is evicted when full) compared after EVERY operation: get of all 12 keys, len <= capacity, len, load_factor, internal queue length. Plus (large_capacity) tables of 10,000,000 (the engine's) and 2^24 entries (thorough: 2^16 .. 2^25) filled to the brim and overflowed by 40 keys. Non-trivial = distinct history containing an eviction followed by a lookup of the evicted or of a surviving key",
        assumptions: &["private HashTable<ZobristHash, u64> reached through the cfg(inkayaku_verif) handle VerifTable"],
        parts: vec![Part {
            name: "histories",
            quick: 100_000,
            thorough: 8_000_000,
            single_shard: false, supplementary: false,
            run: |cfg| {
                let max = if cfg.tier == crate::run::Tier::Thorough { 200 } else { 60 };
                run_part(cfg, (prop_oneof![10 => 1..=8usize, 1 => proptest::sample::select(vec![9usize, 64, 1000, 1023, 1024, 2047, 2048, 4096, 5000, 10_000])], proptest::collection::vec(op_strategy(), 0..=max)), |(cap, ops)| History { capacity: *cap, ops: ops.clone() }, check_history)
            },
            replay: |v| replay_case::<History, _>(v, check_history),
        },
        Part {
            // capacities of the size the engine really uses (10 million) and at the boundaries of what 32-bit integers /
            // floats represent exactly: filled to the brim, then overflowed. One process only (about 1 GB each).
            name: "large_capacity",
            quick: 1,
            thorough: 1,
            single_shard: true, supplementary: true,
            run: |cfg| {
                let caps: Vec<usize> = if cfg.tier == crate::run::Tier::Thorough { vec![1 << 16, 1 << 20, 10_000_000, 1 << 24, (1 << 24) + 1, 1 << 25] } else { vec![10_000_000, 1 << 24] };
                crate::run::run_exhaustive(cfg, caps.into_iter().map(|capacity| LargeCase { capacity, overflow: 40 }), check_large)
            },
            replay: |v| replay_case::<LargeCase, _>(v, check_large),
        }],
    }
}

#[derive(Debug, Clone, Serialize, Deserialize, PartialEq, Eq, Hash)]
pub enum Op {
    Put(u8, u64),
    Get(u8),
    Clear,
    Len,
    LoadFactor,
    /// `count` fresh keys in a row (fills large tables past their capacity)
    PutMany(u32, u16),
    /// `count` clears in a row (hundreds: a table is cleared once per game for the lifetime of the process)
    #[serde(alias = "ClearMany")]
    ClearMany(u16),
}

fn op_strategy() -> impl Strategy<Value = Op> {
    prop_oneof![
        8 => (0..12u8, 0..1000u64).prop_map(|(k, v)| Op::Put(k, v)),
        4 => (0..12u8).prop_map(Op::Get),
        1 => Just(Op::Clear),
        1 => Just(Op::Len),
        1 => Just(Op::LoadFactor),
        1 => (0..4u32, prop_oneof![2 => 1..40u16, 1 => 1000..6000u16]).prop_map(|(b, n)| Op::PutMany(b, n)),
        1 => prop_oneof![2 => 1..6u16, 3 => proptest::sample::select(vec![127u16, 128, 255, 256, 257, 511, 512, 513, 1024]), 1 => 100..700u16].prop_map(Op::ClearMany),
    ]
}

#[derive(Debug, Clone, Serialize, Deserialize)]
pub struct History {
    pub capacity: usize,
    pub ops: Vec<Op>,
}

/// keys as the search would use them: arbitrary 64-bit hashes, including the extremes
fn key(k: u8) -> u64 {
    match k {
        0 => 0,
        1 => u64::MAX,
        2 => 1,
        3 => 1 << 63,
        n => (n as u64).wrapping_mul(0x9E37_79B9_7F4A_7C15),
    }
}

pub fn check_history(h: &History, ctx: &mut Ctx) -> Result<(), String> {
    if h.capacity == 0 {
        return Err("HARNESS: capacity 0 is outside the property's domain".into());
    }
    let mut table = VerifTable::new(h.capacity);
    let mut queue: VecDeque<u64> = VecDeque::new();
    let mut map: BTreeMap<u64, u64> = BTreeMap::new();
    let mut evicted: Vec<u64> = Vec::new();
    let mut fresh: u64 = 0;
    let mut looked_after_eviction = false;
    let mut many_clears = false;
    for (i, op) in h.ops.iter().enumerate() {
        let ctxt = |what: String| format!("capacity {}, after operation #{i} of {:?}: {what}", h.capacity, &h.ops[..=i]);
        match op {
            Op::Put(k, v) => {
                table.put(key(*k), *v);
                if map.insert(key(*k), *v).is_none() {
                    queue.push_back(key(*k));
                }
                if map.len() > h.capacity {
                    let old = queue.pop_front().expect("queue");
                    map.remove(&old);
                    evicted.push(old);
                }
            }
            Op::PutMany(base, n) => {
                // on small tables a long run is pointless: keep it proportionate
                let n = if h.capacity < 64 { (*n % 40) as u64 } else { *n as u64 };
                for _ in 0..n {
                    fresh += 1;
                    let k = (1u64 << 40) + ((*base as u64) << 32) + fresh;
                    table.put(k, fresh);
                    if map.insert(k, fresh).is_none() {
                        queue.push_back(k);
                    }
                    if map.len() > h.capacity {
                        let old = queue.pop_front().expect("queue");
                        map.remove(&old);
                        if evicted.len() < 64 {
                            evicted.push(old);
                        }
                    }
                    if table.len() != map.len() {
                        return Err(ctxt(format!("during a run of fresh keys: len() = {}, model holds {}", table.len(), map.len())));
                    }
                }
                // oldest survivor and newest victim
                if let Some(&front) = queue.front() {
                    if table.get(front) != map.get(&front).copied() {
                        return Err(ctxt(format!("oldest surviving key {front:#x} is {:?} in the table, {:?} in the model", table.get(front), map.get(&front))));
                    }
                }
                if let Some(&last) = evicted.last() {
                    if table.get(last) != map.get(&last).copied() {
                        return Err(ctxt(format!("evicted key {last:#x} is {:?} in the table, {:?} in the model", table.get(last), map.get(&last))));
                    }
                }
            }
            Op::Get(k) => {
                let got = table.get(key(*k));
                if got != map.get(&key(*k)).copied() {
                    return Err(ctxt(format!("get({k}) = {got:?}, model {:?}", map.get(&key(*k)))));
                }
                if !evicted.is_empty() {
                    looked_after_eviction = true;
                }
            }
            Op::Clear => {
                table.clear();
                queue.clear();
                map.clear();
            }
            Op::ClearMany(n) => {
                for _ in 0..*n {
                    table.clear();
                }
                queue.clear();
                map.clear();
                if *n >= 100 {
                    many_clears = true;
                }
            }
            Op::Len => {}
            Op::LoadFactor => {}
        }
        // invariants after every operation
        let len = table.len();
        if len > h.capacity {
            return Err(ctxt(format!("{len} entries stored, capacity {}", h.capacity)));
        }
        if len != map.len() {
            return Err(ctxt(format!("len() = {len}, model holds {}", map.len())));
        }
        if table.queue_len() != len {
            return Err(ctxt(format!("insertion queue holds {} keys but the map {len}", table.queue_len())));
        }
        let lf = table.load_factor();
        let want = map.len() as f32 / h.capacity as f32;
        if lf != want {
            return Err(ctxt(format!("load_factor() = {lf}, real fill level {want}")));
        }
        for k in 0..12u8 {
            let got = table.get(key(k));
            if got != map.get(&key(k)).copied() {
                return Err(ctxt(format!("lookup of key {k} gives {got:?}, model {:?} (queue length {})", map.get(&key(k)), queue.len())));
            }
        }
        ctx.evals(1);
    }
    if !evicted.is_empty() {
        ctx.class("with_eviction");
        if h.ops.iter().any(|o| matches!(o, Op::Put(k, _) if evicted.contains(&key(*k)))) {
            ctx.class("evicted_key_reinserted");
        }
    }
    if h.ops.iter().any(|o| matches!(o, Op::Clear)) {
        ctx.class("with_clear");
    }
    if h.capacity >= 1000 {
        ctx.class(if evicted.is_empty() { "large_capacity" } else { "large_capacity_filled_past_capacity" });
    }
    if !evicted.is_empty() && (looked_after_eviction || !h.ops.is_empty()) {
        // every step looks up all 12 keys, so an eviction is always followed by lookups of evicted and surviving keys
        ctx.nontrivial((h.capacity, &h.ops));
    }
    if many_clears {
        ctx.class("hundreds_of_clears_in_a_row");
    }
    ctx.sample(|| serde_json::json!({"capacity": h.capacity, "ops": h.ops.iter().take(20).collect::<Vec<_>>(), "evictions": evicted.len()}));
    Ok(())
}

// ------------------------------------------------------------------------------------------------

#[derive(Debug, Clone, Serialize, Deserialize)]
pub struct LargeCase {
    pub capacity: usize,
    pub overflow: usize,
}

pub fn check_large(c: &LargeCase, ctx: &mut Ctx) -> Result<(), String> {
    let key = |i: usize| (i as u64 + 1).wrapping_mul(0x9E37_79B9_7F4A_7C15);
    let mut t = VerifTable::new(c.capacity);
    for i in 0..c.capacity {
        t.put(key(i), i as u64);
    }
    if t.len() != c.capacity || t.queue_len() != c.capacity {
        return Err(format!("capacity {}: after {} distinct puts len = {}, queue = {}", c.capacity, c.capacity, t.len(), t.queue_len()));
    }
    ctx.evals(1);
    for j in 0..c.overflow {
        let i = c.capacity + j;
        t.put(key(i), i as u64);
        if t.len() > c.capacity {
            return Err(format!("capacity {}: {} entries after {} distinct puts (the table grew beyond its capacity)", c.capacity, t.len(), i + 1));
        }
        if t.len() != c.capacity || t.queue_len() != c.capacity {
            return Err(format!("capacity {}: after {} distinct puts len = {}, queue = {}", c.capacity, i + 1, t.len(), t.queue_len()));
        }
        // first in, first out: exactly the j+1 oldest keys are gone
        if t.get(key(j)).is_some() {
            return Err(format!("capacity {}: after {} distinct puts the {}-th oldest key is still present", c.capacity, i + 1, j + 1));
        }
        if t.get(key(j + 1)) != Some(j as u64 + 1) || t.get(key(i)) != Some(i as u64) {
            return Err(format!("capacity {}: after {} distinct puts a key that must have survived is missing or has the wrong value", c.capacity, i + 1));
        }
        ctx.evals(1);
    }
    ctx.class(&format!("capacity_{}", c.capacity));
    ctx.nontrivial(c.capacity);
    ctx.sample(|| serde_json::json!({"capacity": c.capacity, "overflow": c.overflow}));
    Ok(())
}
