//! C18 — the transposition store is a bounded FIFO map (model-based).

use std::collections::{BTreeMap, VecDeque};

use inkayaku_engine_core::verif::VerifTable;
use proptest::prelude::*;
use serde::{Deserialize, Serialize};

use crate::run::{replay_case, run_part, Ctx, Part, Property};

pub fn property() -> Property {
    Property {
        id: "C18",
        level: "exploration",
        rule: "operation histories put(k,v) / get(k) / clear / len / load_factor over a key universe of 12 (so re-insertion of present and of evicted keys is dense) and capacities 1..8, up to 60 (quick) / 200 (thorough) operations; oracle = reference FIFO map (queue of first insertions + map; a re-put keeps its queue position; the oldest present key is evicted when full) compared after EVERY operation: get of all 12 keys, len <= capacity, len, load_factor, internal queue length. Non-trivial = distinct history containing an eviction followed by a lookup of the evicted or of a surviving key",
        assumptions: &["private HashTable<ZobristHash, u64> reached through the cfg(inkayaku_verif) handle VerifTable"],
        parts: vec![Part {
            name: "histories",
            quick: 100_000,
            thorough: 2_000_000,
            single_shard: false, supplementary: false,
            run: |cfg| {
                let max = if cfg.tier == crate::run::Tier::Thorough { 200 } else { 60 };
                run_part(cfg, (1..=8usize, proptest::collection::vec(op_strategy(), 0..=max)), |(cap, ops)| History { capacity: *cap, ops: ops.clone() }, check_history)
            },
            replay: |v| replay_case::<History, _>(v, check_history),
        }],
    }
}

#[derive(Debug, Clone, Serialize, Deserialize, PartialEq, Eq, Hash)]
pub enum Op {
    Put(u8, u64),
    Get(u8),
    Clear,
    Len,
    LoadFactor,
}

fn op_strategy() -> impl Strategy<Value = Op> {
    prop_oneof![
        8 => (0..12u8, 0..1000u64).prop_map(|(k, v)| Op::Put(k, v)),
        4 => (0..12u8).prop_map(Op::Get),
        1 => Just(Op::Clear),
        1 => Just(Op::Len),
        1 => Just(Op::LoadFactor),
    ]
}

#[derive(Debug, Clone, Serialize, Deserialize)]
pub struct History {
    pub capacity: usize,
    pub ops: Vec<Op>,
}

/// keys as the search would use them: arbitrary 64-bit hashes, including the extremes
fn key(k: u8) -> u64 {
    match k {
        0 => 0,
        1 => u64::MAX,
        2 => 1,
        3 => 1 << 63,
        n => (n as u64).wrapping_mul(0x9E37_79B9_7F4A_7C15),
    }
}

pub fn check_history(h: &History, ctx: &mut Ctx) -> Result<(), String> {
    if h.capacity == 0 {
        return Err("HARNESS: capacity 0 is outside the property's domain".into());
    }
    let mut table = VerifTable::new(h.capacity);
    let mut queue: VecDeque<u8> = VecDeque::new();
    let mut map: BTreeMap<u8, u64> = BTreeMap::new();
    let mut evicted: Vec<u8> = Vec::new();
    let mut looked_after_eviction = false;
    for (i, op) in h.ops.iter().enumerate() {
        let ctxt = |what: String| format!("capacity {}, after operation #{i} of {:?}: {what}", h.capacity, &h.ops[..=i]);
        match op {
            Op::Put(k, v) => {
                table.put(key(*k), *v);
                if map.insert(*k, *v).is_none() {
                    queue.push_back(*k);
                }
                if map.len() > h.capacity {
                    let old = queue.pop_front().expect("queue");
                    map.remove(&old);
                    evicted.push(old);
                }
            }
            Op::Get(k) => {
                let got = table.get(key(*k));
                if got != map.get(k).copied() {
                    return Err(ctxt(format!("get({k}) = {got:?}, model {:?}", map.get(k))));
                }
                if !evicted.is_empty() {
                    looked_after_eviction = true;
                }
            }
            Op::Clear => {
                table.clear();
                queue.clear();
                map.clear();
            }
            Op::Len => {}
            Op::LoadFactor => {}
        }
        // invariants after every operation
        let len = table.len();
        if len > h.capacity {
            return Err(ctxt(format!("{len} entries stored, capacity {}", h.capacity)));
        }
        if len != map.len() {
            return Err(ctxt(format!("len() = {len}, model holds {}", map.len())));
        }
        if table.queue_len() != len {
            return Err(ctxt(format!("insertion queue holds {} keys but the map {len}", table.queue_len())));
        }
        let lf = table.load_factor();
        let want = map.len() as f32 / h.capacity as f32;
        if lf != want {
            return Err(ctxt(format!("load_factor() = {lf}, real fill level {want}")));
        }
        for k in 0..12u8 {
            let got = table.get(key(k));
            if got != map.get(&k).copied() {
                return Err(ctxt(format!("lookup of key {k} gives {got:?}, model {:?} (queue {:?})", map.get(&k), queue)));
            }
        }
        ctx.evals(1);
    }
    if !evicted.is_empty() {
        ctx.class("with_eviction");
        if h.ops.iter().any(|o| matches!(o, Op::Put(k, _) if evicted.contains(k))) {
            ctx.class("evicted_key_reinserted");
        }
    }
    if h.ops.iter().any(|o| matches!(o, Op::Clear)) {
        ctx.class("with_clear");
    }
    if !evicted.is_empty() && (looked_after_eviction || !h.ops.is_empty()) {
        // every step looks up all 12 keys, so an eviction is always followed by lookups of evicted and surviving keys
        ctx.nontrivial((h.capacity, &h.ops));
    }
    ctx.sample(|| serde_json::json!({"capacity": h.capacity, "ops": h.ops.iter().take(20).collect::<Vec<_>>(), "evictions": evicted.len()}));
    Ok(())
}
