//! C13 — move strings are applied only if legal; a rejected move changes nothing.

use proptest::prelude::*;
use serde::{Deserialize, Serialize};

use crate::eng;
use crate::gen::{self, ClockDomain};
use crate::refmodel::{sq_name, Kind, Mv, Pos};
use crate::run::{replay_case, run_part, Ctx, Part, Property};

pub fn property() -> Property {
    Property {
        id: "C13",
        level: "exploration",
        rule: "(strings) per generated position: every pseudo-legal string, promotion-letter variants (missing / extra / king letter / upper case), a generated sample of the 64x64x{none,q,r,b,n,k} strings (quick: 1,024 per position; thorough: all 24,576) and malformed strings, each through find_uci, make_uci and uci_to_pgn; (lists) make_all_uci on game prefixes with a faulty entry at a generated index; (stateful) operation sequences find_uci / make_uci / make_all_uci / uci_to_pgn / pgn_to_bb on ONE board with the reference position as model. Oracle: string in the reference legal set => Ok and the board equals the reference successor; otherwise Err and the full snapshot (12 bitboards, rights, e.p., clocks, hashes) is unchanged. Non-trivial = distinct (FEN, string) that is pseudo-legal but illegal, or a promotion-letter variant, or a list failing at index >= 1",
        assumptions: &["white-space padded strings are only checked for state consistency (the code trims; the property is silent)"],
        parts: vec![
            Part {
                name: "strings",
                quick: 2_500,
                thorough: 4_000,
                single_shard: false, supplementary: false,
                run: |cfg| {
                    let all = cfg.tier == crate::run::Tier::Thorough;
                    run_part(cfg, (gen::raw_pos(80), any::<u64>()), move |(r, salt)| StringsCase { fen: gen::position(r, ClockDomain::Unmake).fen(), salt: *salt, all }, check_strings)
                },
                replay: |v| replay_case::<StringsCase, _>(v, check_strings),
            },
            Part {
                name: "single",
                quick: 0,
                thorough: 0,
                single_shard: true, supplementary: true,
                run: |cfg| crate::run::run_exhaustive(cfg, std::iter::empty::<OneString>(), check_one_string),
                replay: |v| replay_case::<OneString, _>(v, check_one_string),
            },
            Part {
                name: "lists",
                quick: 20_000,
                thorough: 300_000,
                single_shard: false, supplementary: false,
                run: |cfg| run_part(cfg, (gen::raw_playout(30), any::<u16>(), any::<u16>(), 0..8u8), |(r, at, pick, kind)| list_case(r, *at, *pick, *kind), check_list),
                replay: |v| replay_case::<ListCase, _>(v, check_list),
            },
            Part {
                name: "engine_position",
                quick: 1_600,
                thorough: 20_000,
                single_shard: false, supplementary: false,
                run: |cfg| run_part(cfg, (gen::raw_playout(24), any::<u16>(), any::<u16>(), 0..6u8, 0..8u8), |(r, cut, pick, kind, bad)| engine_pos_case(r, *cut, *pick, *kind, *bad), check_engine_position),
                replay: |v| replay_case::<EnginePosCase, _>(v, check_engine_position),
            },
            Part {
                name: "stateful",
                quick: 10_000,
                thorough: 150_000,
                single_shard: false, supplementary: false,
                run: |cfg| run_part(cfg, (gen::raw_pos(40), proptest::collection::vec((0..6u8, any::<u16>(), any::<u16>()), 1..25)), |(r, ops)| StatefulCase { fen: gen::position(r, ClockDomain::Unmake).fen(), ops: ops.clone() }, check_stateful),
                replay: |v| replay_case::<StatefulCase, _>(v, check_stateful),
            },
        ],
    }
}

#[derive(Debug, Clone, Serialize, Deserialize)]
pub struct StringsCase {
    pub fen: String,
    pub salt: u64,
    pub all: bool,
}

#[derive(Debug, Clone, Serialize, Deserialize)]
pub struct OneString {
    pub fen: String,
    pub text: String,
}

fn xorshift(x: &mut u64) -> u64 {
    // plain deterministic mixing of the generated salt (no RNG of our own: the salt comes from the strategy)
    *x ^= *x << 13;
    *x ^= *x >> 7;
    *x ^= *x << 17;
    *x
}

const MALFORMED: [&str; 22] = ["", " ", "e2", "e2e", "e2e4e", "e2e4qq", "e9e4", "i2e4", "e2-e4", "E2E4", "0000", "e2e4 ", "xxxx", "e2e4\n", "♔e2e4", "e7e8=Q", "O-O", "e1g1x", "a1a1", "h8h8q", "1234", "A1a2"];

/// One string against one position: returns Err(message) on a property violation.
fn judge(p: &Pos, legal: &[Mv], text: &str) -> Result<bool, String> {
    let fen = p.fen();
    let mut b = eng::board_from_pos(p);
    let before = eng::snap(&b);
    let exact = Mv::parse(text).filter(|m| m.uci() == text && legal.contains(m));
    let padded = text.trim() != text;
    let trimmed = Mv::parse(text.trim()).filter(|m| m.uci() == text.trim() && legal.contains(m));

    // find_uci never changes the board
    let r = b.find_uci(text);
    let after = eng::snap(&b);
    if after != before {
        return Err(format!("find_uci({text:?}) in {fen} returned {} but changed the board to {}", if r.is_ok() { "Ok" } else { "Err" }, after.fen));
    }
    match (&r, exact, padded) {
        (Ok(mv), Some(m), _) => {
            if mv.to_uci_string() != m.uci() {
                return Err(format!("find_uci({text:?}) in {fen} returned the move {}", mv.to_uci_string()));
            }
        }
        (Err(e), Some(_), _) => return Err(format!("find_uci({text:?}) rejects a legal move in {fen}: {e:?}")),
        (Ok(mv), None, false) => return Err(format!("find_uci({text:?}) accepts a string that is not a legal move in {fen} (as {})", mv.to_uci_string())),
        (Ok(mv), None, true) => {
            // trimming is tolerated; the result must then be the trimmed legal move
            if trimmed.map(|m| m.uci()) != Some(mv.to_uci_string()) {
                return Err(format!("find_uci({text:?}) in {fen} returned {} which is not the legal move the trimmed text spells", mv.to_uci_string()));
            }
        }
        (Err(_), None, _) => {}
    }

    // uci_to_pgn never changes the board
    let r2 = b.uci_to_pgn(text);
    let after = eng::snap(&b);
    if after != before {
        return Err(format!("uci_to_pgn({text:?}) in {fen} returned {:?} but changed the board to {}", r2, after.fen));
    }
    if exact.is_some() && r2.is_err() {
        return Err(format!("uci_to_pgn({text:?}) rejects a legal move in {fen}: {r2:?}"));
    }
    if exact.is_none() && !padded && r2.is_ok() {
        return Err(format!("uci_to_pgn({text:?}) accepts a string that is not a legal move in {fen}: {r2:?}"));
    }

    // make_uci applies exactly the legal ones
    let r3 = b.make_uci(text);
    let after = eng::snap(&b);
    match (r3.is_ok(), exact.or(if padded { trimmed } else { None })) {
        (true, Some(m)) => {
            let want = p.apply(m).fen();
            if after.fen != want {
                return Err(format!("make_uci({text:?}) in {fen} reaches {} but the rules give {want}", after.fen));
            }
        }
        (true, None) => return Err(format!("make_uci({text:?}) applied a string that is not a legal move in {fen}; board now {}", after.fen)),
        (false, Some(_)) if !padded => return Err(format!("make_uci({text:?}) rejects a legal move in {fen}: {r3:?}")),
        (false, _) => {
            if after != before {
                return Err(format!("make_uci({text:?}) in {fen} returned {r3:?} but changed the board to {}", after.fen));
            }
        }
    }
    Ok(exact.is_some())
}

pub fn check_one_string(c: &OneString, _ctx: &mut Ctx) -> Result<(), String> {
    let p = Pos::from_fen(&c.fen).ok_or_else(|| format!("HARNESS: bad case fen {}", c.fen))?;
    judge(&p, &p.legal_moves(), &c.text).map(|_| ())
}

pub fn check_strings(c: &StringsCase, ctx: &mut Ctx) -> Result<(), String> {
    let p = Pos::from_fen(&c.fen).ok_or_else(|| format!("HARNESS: bad case fen {}", c.fen))?;
    let legal = p.legal_moves();
    let pseudo = p.pseudo_moves();
    let mut texts: Vec<(String, &'static str)> = Vec::new();
    for m in &pseudo {
        let class = if legal.contains(m) { "legal" } else { "pseudo_legal_but_illegal" };
        texts.push((m.uci(), class));
        // promotion-letter variants
        let base = format!("{}{}", sq_name(m.from), sq_name(m.to));
        if m.promo.is_some() {
            if m.promo == Some(Kind::Queen) {
                texts.push((base.clone(), "promotion_letter_missing"));
                texts.push((format!("{base}k"), "promotion_to_king"));
                texts.push((format!("{base}p"), "promotion_to_pawn"));
                texts.push((format!("{base}Q"), "promotion_letter_upper_case"));
                texts.push((format!("{base}qq"), "promotion_letter_doubled"));
            }
        } else {
            texts.push((format!("{base}q"), "promotion_letter_on_ordinary_move"));
        }
        texts.push((format!(" {} ", m.uci()), "padded"));
    }
    // castling through / out of / into check and castling without the right, whatever the position offers
    for t in ["e1g1", "e1c1", "e8g8", "e8c8"] {
        texts.push((t.to_string(), "castling_string"));
    }
    for t in MALFORMED {
        texts.push((t.to_string(), "malformed"));
    }
    let letters = ["", "q", "r", "b", "n", "k"];
    if c.all {
        for from in 0..64u8 {
            for to in 0..64u8 {
                for l in letters {
                    texts.push((format!("{}{}{}", sq_name(from), sq_name(to), l), "grid"));
                }
            }
        }
    } else {
        let mut x = c.salt | 1;
        for _ in 0..1024 {
            let v = xorshift(&mut x);
            let (from, to, l) = ((v % 64) as u8, ((v >> 8) % 64) as u8, letters[((v >> 16) % 6) as usize]);
            texts.push((format!("{}{}{}", sq_name(from), sq_name(to), l), "grid"));
        }
    }
    for (t, class) in &texts {
        judge(&p, &legal, t).map_err(|e| format!("[{class}] {e}"))?;
        ctx.evals(1);
        ctx.class(class);
        if matches!(*class, "pseudo_legal_but_illegal" | "promotion_letter_missing" | "promotion_to_king" | "promotion_to_pawn" | "promotion_letter_upper_case" | "promotion_letter_doubled" | "promotion_letter_on_ordinary_move") {
            ctx.nontrivial((p.fen4(), t));
        }
    }
    ctx.sample(|| serde_json::json!({"fen": c.fen, "strings_tried": texts.len(), "legal": legal.len(), "pseudo_legal": pseudo.len()}));
    Ok(())
}

// ------------------------------------------------------------------------------------------------

#[derive(Debug, Clone, Serialize, Deserialize)]
pub struct ListCase {
    pub fen: String,
    pub moves: Vec<String>,
}

fn bad_move_for(p: &Pos, pick: u16, kind: u8) -> String {
    let legal = p.legal_moves();
    let pseudo = p.pseudo_moves();
    let illegal: Vec<&Mv> = pseudo.iter().filter(|m| !legal.contains(m)).collect();
    match kind {
        0 | 1 if !illegal.is_empty() => illegal[gen::pick(pick as u32, 16, illegal.len())].uci(),
        2 => "e2e5".to_string(),
        3 => "".to_string(),
        4 => "e7e8".to_string(),
        5 => "zzzz".to_string(),
        _ => {
            // a move of the wrong side: take an opponent piece's square as origin
            let from = (0..64u8).find(|&s| matches!(p.board[s as usize], Some((c, _)) if c != p.turn)).unwrap_or(0);
            format!("{}{}", sq_name(from), sq_name((from + 8) % 64))
        }
    }
}

fn list_case(r: &gen::RawPlayout, at: u16, pick: u16, kind: u8) -> ListCase {
    let g = gen::play(r, ClockDomain::Unmake);
    let mut moves: Vec<String> = g.moves.iter().map(Mv::uci).collect();
    if kind < 7 {
        let i = gen::pick(at as u32, 16, moves.len() + 1);
        let bad = bad_move_for(&g.positions[i], pick, kind);
        moves.truncate(i);
        moves.push(bad);
        // a tail after the faulty entry must not matter
        if pick % 3 == 0 {
            moves.push("e2e4".to_string());
        }
    }
    // keep the clock of every prefix inside unmake's domain (<= 4095)
    let mut start = g.start.clone();
    start.half = start.half.min(4095 - 32);
    ListCase { fen: start.fen(), moves }
}

pub fn check_list(c: &ListCase, ctx: &mut Ctx) -> Result<(), String> {
    let p = Pos::from_fen(&c.fen).ok_or_else(|| format!("HARNESS: bad case fen {}", c.fen))?;
    // model: all-or-nothing
    let mut cur = p.clone();
    let mut fail_at = None;
    for (i, t) in c.moves.iter().enumerate() {
        match Mv::parse(t.trim()).filter(|m| m.uci() == t.trim() && cur.is_legal(*m)) {
            Some(m) => cur = cur.apply(m),
            None => {
                fail_at = Some(i);
                break;
            }
        }
    }
    let mut b = eng::board_from_pos(&p);
    let before = eng::snap(&b);
    let r = b.make_all_uci(&c.moves);
    let after = eng::snap(&b);
    match (r.is_ok(), fail_at) {
        (true, None) => {
            if after.fen != cur.fen() {
                return Err(format!("make_all_uci({:?}) from {} reaches {} but the rules give {}", c.moves, c.fen, after.fen, cur.fen()));
            }
            ctx.class("list_all_legal");
        }
        (true, Some(i)) => return Err(format!("make_all_uci accepted the list {:?} from {} although entry {i} ({:?}) is not legal there; board now {}", c.moves, c.fen, c.moves[i], after.fen)),
        (false, None) => return Err(format!("make_all_uci rejected the all-legal list {:?} from {}: {r:?}", c.moves, c.fen)),
        (false, Some(i)) => {
            if after != before {
                return Err(format!("make_all_uci({:?}) from {} failed at entry {i} ({:?}) but left the board at {} instead of the position before the call", c.moves, c.fen, c.moves[i], after.fen));
            }
            ctx.class(if i == 0 { "list_fails_at_0" } else { "list_fails_later" });
            if i >= 1 {
                ctx.nontrivial((c.fen.clone(), c.moves.clone()));
            }
        }
    }
    ctx.sample(|| serde_json::json!({"fen": c.fen, "moves": c.moves, "fails_at": fail_at}));
    Ok(())
}

// ------------------------------------------------------------------------------------------------

#[derive(Debug, Clone, Serialize, Deserialize)]
pub struct StatefulCase {
    pub fen: String,
    pub ops: Vec<(u8, u16, u16)>,
}

pub fn check_stateful(c: &StatefulCase, ctx: &mut Ctx) -> Result<(), String> {
    let mut p = Pos::from_fen(&c.fen).ok_or_else(|| format!("HARNESS: bad case fen {}", c.fen))?;
    let mut b = eng::board_from_pos(&p);
    let mut trace: Vec<String> = Vec::new();
    for &(op, x, y) in &c.ops {
        if p.half >= 4000 {
            break; // stay inside unmake's clock domain
        }
        let legal = p.legal_moves();
        let pseudo = p.pseudo_moves();
        let illegal: Vec<Mv> = pseudo.iter().copied().filter(|m| !legal.contains(m)).collect();
        // choose a string: legal, illegal-pseudo-legal or junk
        let text = match y % 4 {
            0 if !legal.is_empty() => legal[gen::pick(x as u32, 16, legal.len())].uci(),
            1 if !illegal.is_empty() => illegal[gen::pick(x as u32, 16, illegal.len())].uci(),
            2 => format!("{}{}", sq_name((x % 64) as u8), sq_name((x / 64 % 64) as u8)),
            _ => MALFORMED[gen::pick(x as u32, 16, MALFORMED.len())].to_string(),
        };
        let as_move = Mv::parse(&text).filter(|m| m.uci() == text && legal.contains(m));
        let padded_ok = Mv::parse(text.trim()).filter(|m| m.uci() == text.trim() && legal.contains(m));
        let before = eng::snap(&b);
        let what;
        match op {
            0 => {
                what = format!("find_uci({text:?})");
                let _ = b.find_uci(&text);
            }
            1 => {
                what = format!("uci_to_pgn({text:?})");
                let _ = b.uci_to_pgn(&text);
            }
            2 => {
                let san = as_move.map(|m| p.san(m)).unwrap_or_else(|| ["Nf3", "e4", "O-O", "Qxh7#", "??", "Rad1", "exd6"][(x % 7) as usize].to_string());
                what = format!("pgn_to_bb({san:?})");
                let _ = b.pgn_to_bb(&san);
            }
            3 => {
                what = format!("make_uci({text:?})");
                let r = b.make_uci(&text);
                if let (true, Some(m)) = (r.is_ok(), padded_ok) {
                    p = p.apply(m);
                }
            }
            4 => {
                // a two-entry list: legal then the chosen string
                let first = legal.first().map(Mv::uci);
                let list: Vec<String> = first.iter().cloned().chain(std::iter::once(text.clone())).collect();
                what = format!("make_all_uci({list:?})");
                let r = b.make_all_uci(&list);
                if r.is_ok() {
                    let mut q = p.clone();
                    let mut ok = true;
                    for t in &list {
                        match Mv::parse(t.trim()).filter(|m| m.uci() == t.trim() && q.is_legal(*m)) {
                            Some(m) => q = q.apply(m),
                            None => ok = false,
                        }
                    }
                    if ok {
                        p = q;
                    }
                }
            }
            _ => {
                what = "generate_legal_moves()".to_string();
                let _ = b.generate_legal_moves();
            }
        }
        trace.push(what.clone());
        let after = eng::snap(&b);
        if after.fen != p.fen() {
            return Err(format!("after {trace:?} from {} the board is {} but should be {} (previous state {})", c.fen, after.fen, p.fen(), before.fen));
        }
        if after.hash != eng::board_from_pos(&p).calculate_zobrist_hash() {
            return Err(format!("after {trace:?} from {} the board's bitboards no longer match its own FEN", c.fen));
        }
        ctx.evals(1);
        ctx.class(match op {
            0 => "op_find_uci",
            1 => "op_uci_to_pgn",
            2 => "op_pgn_to_bb",
            3 => "op_make_uci",
            4 => "op_make_all_uci",
            _ => "op_generate",
        });
        if y % 4 == 1 && !illegal.is_empty() {
            ctx.nontrivial((p.fen4(), what));
        }
    }
    ctx.sample(|| serde_json::json!({"fen": c.fen, "trace": trace}));
    Ok(())
}

// ------------------------------------------------------------------------------------------------
// the caller named by the property: the engine's `position` command replays a move list all-or-nothing

#[derive(Debug, Clone, Serialize, Deserialize)]
pub struct EnginePosCase {
    pub fen: String,
    pub first: Vec<String>,
    pub second: Vec<String>,
    pub search_between: bool,
    pub new_game_between: bool,
    /// the first list is a take-back shuffle (a b a' b' a b a'): repetitions are in reach of the next search
    #[serde(default)]
    pub shuffle: bool,
}

fn engine_pos_case(r: &gen::RawPlayout, cut: u16, pick: u16, kind: u8, bad: u8) -> EnginePosCase {
    let g = gen::play(r, ClockDomain::Engine);
    let all: Vec<String> = g.moves.iter().map(Mv::uci).collect();
    let k = gen::pick(cut as u32, 16, all.len() + 1);
    let first: Vec<String> = all[..k].to_vec();
    let second: Vec<String> = match kind {
        // extends the first list by legal moves and then a faulty one (and possibly more)
        0 | 1 | 2 => {
            let j = k + gen::pick(pick as u32, 16, all.len() - k + 1);
            let mut v = all[..j].to_vec();
            v.push(bad_move_for(&g.positions[j], pick, bad % 7));
            if pick % 2 == 0 && j < all.len() {
                v.push(all[j].clone());
            }
            v
        }
        // an unrelated list failing at a generated index
        3 => {
            let j = gen::pick(pick as u32, 16, all.len() + 1);
            let mut v = all[..j].to_vec();
            v.push(bad_move_for(&g.positions[j], pick, bad % 7));
            v
        }
        // a fully legal extension
        4 => all.clone(),
        // a fully legal shorter list
        _ => all[..gen::pick(pick as u32, 16, k + 1)].to_vec(),
    };
    // well-formed move texts only (the GUI line must parse; legality is the engine's business)
    let second: Vec<String> = second.into_iter().map(|m| if Mv::parse(&m).is_some() { m } else { "a1a1".to_string() }).collect();
    // a game with repetitions in its history, then a command that must be rejected
    if kind <= 3 && pick % 4 == 1 {
        let mut st = g.start.clone();
        st.ep = None;
        if let Some([a, b, a2, b2]) = crate::props::c10::shuffle_quad_pub(&st, pick / 4) {
            let line = [a, b, a2, b2, a, b, a2];
            let first: Vec<String> = line.iter().map(Mv::uci).collect();
            // the rejected command fails after j of the held game's moves (j = 7: it extends the whole game)
            let j = (pick / 16) as usize % 8;
            let mut second: Vec<String> = first[..j].to_vec();
            let mut q = st.clone();
            for m in &line[..j] {
                q = q.apply(*m);
            }
            let badm = bad_move_for(&q, pick, bad % 7);
            second.push(if Mv::parse(&badm).is_some() { badm } else { "a1a1".to_string() });
            return EnginePosCase { fen: st.fen(), first, second, search_between: false, new_game_between: false, shuffle: true };
        }
    }
    EnginePosCase { fen: g.start.fen(), first, second, search_between: pick % 3 == 0, new_game_between: pick % 5 == 0, shuffle: false }
}

pub fn check_engine_position(c: &EnginePosCase, ctx: &mut Ctx) -> Result<(), String> {
    use crate::engsess::{GoSpec, Session, Wait};
    let start = Pos::from_fen(&c.fen).ok_or_else(|| format!("HARNESS: bad fen {}", c.fen))?;
    let replay = |list: &[String]| -> Option<Pos> {
        let mut p = start.clone();
        for t in list {
            let m = Mv::parse(t).filter(|m| m.uci() == *t && p.is_legal(*m))?;
            p = p.apply(m);
        }
        Some(p)
    };
    let after_first = replay(&c.first).ok_or_else(|| "HARNESS: first list not legal".to_string())?;
    let after_second = replay(&c.second);
    let expected = after_second.clone().unwrap_or_else(|| after_first.clone());
    let mut s = Session::new();
    s.position(&c.fen, &c.first)?;
    if c.search_between {
        if !matches!(s.search(&GoSpec::depth(1)), Wait::Done(_)) {
            return Err(format!("no answer to go depth 1 after position fen {} moves {:?}", c.fen, c.first));
        }
    }
    if c.new_game_between {
        s.new_game();
    }
    s.position(&c.fen, &c.second)?;
    let what = format!("position fen {} moves {:?}, then position (same fen) moves {:?} ({})", c.fen, c.first, c.second, if after_second.is_some() { "all legal" } else { "contains a move that is not legal: must be rejected as a whole" });
    let held = s.dump_fen().ok_or_else(|| format!("{what}: search thread gone"))?;
    let want = eng::eng_fen(&eng::board_from_pos(&expected));
    if held != want {
        return Err(format!("{what}: the engine now holds {held}, expected {want}"));
    }
    // after a rejected command the engine behaves exactly like one that never received it: same answer to `go depth 2`
    // as a fresh engine given only the accepted command (everything is deterministic at a fixed depth)
    if after_second.is_none() && !c.search_between && !c.new_game_between && !expected.legal_moves().is_empty() {
        let mut f = Session::new();
        f.position(&c.fen, &c.first)?;
        let (a, b) = (s.search(&GoSpec::depth(2)), f.search(&GoSpec::depth(2)));
        f.quit()?;
        match (a, b) {
            (Wait::Done(x), Wait::Done(y)) => {
                let sx = x.last_scored().and_then(|i| i.score).map(|v| crate::engsess::score_text(&v));
                let sy = y.last_scored().and_then(|i| i.score).map(|v| crate::engsess::score_text(&v));
                if sx != sy || x.best_uci() != y.best_uci() {
                    return Err(format!("{what}: go depth 2 now answers {:?} / {sx:?}, an engine that only received the first command answers {:?} / {sy:?}", x.best_uci(), y.best_uci()));
                }
                ctx.class(if c.shuffle { "rejected_after_repetition_history_same_answer_as_fresh_engine" } else { "rejected_same_answer_as_fresh_engine" });
            }
            (Wait::Timeout, _) | (_, Wait::Timeout) => return Err(format!("HARNESS: watchdog at {what}")),
            _ => return Err(format!("{what}: no answer to go depth 2")),
        }
    }
    match s.search(&GoSpec::depth(1)) {
        Wait::Done(o) => {
            let legal: Vec<String> = expected.legal_moves().iter().map(Mv::uci).collect();
            match o.best_uci() {
                Some(m) if !legal.contains(&m) => return Err(format!("{what}: go depth 1 answers {m}, illegal in {want}")),
                None if !legal.is_empty() => return Err(format!("{what}: go depth 1 answers 0000")),
                _ => {}
            }
        }
        Wait::ThreadDied(w, _) => return Err(format!("{what}: {w}")),
        Wait::Timeout => return Err(format!("HARNESS: watchdog at {what}")),
    }
    s.quit().map_err(|e| format!("{what}: {e}"))?;
    let class = match (&after_second, c.second.len() > c.first.len() && c.second[..c.first.len()] == c.first[..]) {
        (None, true) => "rejected_extension_of_held_line",
        (None, false) => "rejected_other_line",
        (Some(_), true) => "accepted_extension",
        (Some(_), false) => "accepted_other_line",
    };
    ctx.class(class);
    if after_second.is_none() {
        ctx.nontrivial((c.fen.clone(), c.first.clone(), c.second.clone()));
    }
    ctx.sample(|| serde_json::json!({"fen": c.fen, "first": c.first, "second": c.second, "class": class}));
    Ok(())
}
