//! C03 — taking a move back restores the position exactly.

use inkayaku_board::Move;

use crate::eng::{self, Snap};
use crate::gen::{self, ClockDomain, Game};
use crate::props::PosCase;
use crate::refmodel::{Mv, Pos};
use crate::run::{replay_case, run_part, Ctx, Part, Property};

pub fn property() -> Property {
    Property {
        id: "C03",
        level: "exploration",
        rule: "(a) every pseudo-legal move (legal or not) of generated positions with half-move clocks concentrated on {0,1,99,100,127..130,255,256,1000,4095} and full-move numbers 0 and 1 up to 4*10^9 is made and unmade (also through is_move_legal); (b) lines of up to 40 legal moves made and then unmade in reverse with a snapshot compared at every level. Oracle: snapshot (FEN text, 12 piece bitboards, 4 rights, e.p., side, both clocks, both hashes recomputed) before == after. Non-trivial = distinct (4-field FEN, move) where the move is pseudo-legal but illegal, or castle / e.p. / promotion, or the clock is >= 128",
        assumptions: &["occupancy[0] of PlayerState is a scratch slot and deliberately not part of the snapshot", "half-move clock <= 4095 (the 12-bit undo field stated by the property)"],
        parts: vec![
            Part {
                name: "sweep",
                quick: 60_000,
                thorough: 6_000_000,
                single_shard: false, supplementary: false,
                run: |cfg| {
                    run_part(
                        cfg,
                        (gen::raw_pos(80), 0..24u8),
                        |(r, zero)| {
                            // "any full-move number": the reader also accepts 0 (set-up positions of some tools)
                            let mut p = gen::position(r, ClockDomain::Unmake);
                            if *zero == 0 {
                                p.full = 0;
                            }
                            PosCase { fen: p.fen() }
                        },
                        check_sweep,
                    )
                },
                replay: |v| replay_case::<PosCase, _>(v, check_sweep),
            },
            Part {
                name: "lines",
                quick: 12_000,
                thorough: 600_000,
                single_shard: false, supplementary: false,
                run: |cfg| {
                    run_part(
                        cfg,
                        gen::raw_playout(40),
                        |r| {
                            // every position of the line must stay inside the property's clock domain (<= 4095)
                            let mut start = gen::seed_position(r, ClockDomain::Unmake);
                            start.half = start.half.min(4095 - r.choices.len() as u64);
                            if r.seed % 24 == 5 {
                                start.full = 0;
                            }
                            gen::play_from(start, &r.choices).to_game()
                        },
                        check_line,
                    )
                },
                replay: |v| replay_case::<Game, _>(v, check_line),
            },
        ],
    }
}

fn snap_diff(a: &Snap, b: &Snap) -> String {
    let mut v = Vec::new();
    if a.fen != b.fen {
        v.push(format!("position {} -> {}", a.fen, b.fen));
    }
    if a.pieces != b.pieces {
        v.push("piece bitboards differ".to_string());
    }
    if a.rights != b.rights {
        v.push(format!("rights {:?} -> {:?}", a.rights, b.rights));
    }
    if a.ep != b.ep {
        v.push(format!("e.p. {} -> {}", a.ep, b.ep));
    }
    if a.turn != b.turn {
        v.push(format!("side {} -> {}", a.turn, b.turn));
    }
    if a.half != b.half {
        v.push(format!("half-move clock {} -> {}", a.half, b.half));
    }
    if a.full != b.full {
        v.push(format!("full-move number {} -> {}", a.full, b.full));
    }
    if a.hash != b.hash {
        v.push("hash differs".to_string());
    }
    if a.pawn_hash != b.pawn_hash {
        v.push("pawn hash differs".to_string());
    }
    v.join("; ")
}

pub fn check_sweep(case: &PosCase, ctx: &mut Ctx) -> Result<(), String> {
    let p = Pos::from_fen(&case.fen).ok_or_else(|| format!("HARNESS: bad case fen {}", case.fen))?;
    let mut b = eng::board_from_pos(&p);
    let before = eng::snap(&b);
    let before_fen = eng::eng_fen(&b);
    let legal: Vec<Mv> = p.legal_moves();
    let mut pseudo: Vec<Move> = b.generate_pseudo_legal_moves();
    let n_full = pseudo.len();
    // ... and the objects the capture / promotion generator hands out for the same moves (the quiescence search makes and
    // unmakes THOSE)
    pseudo.extend(b.generate_pseudo_legal_non_quiescent_moves());
    if pseudo.len() > n_full {
        ctx.class("objects_from_the_capture_generator");
    }
    let mut illegal = 0;
    for mv in &pseudo {
        let u = mv.to_uci_string();
        b.make(*mv);
        b.unmake(*mv);
        let after = eng::snap(&b);
        if after != before {
            return Err(format!("make+unmake of {u} in {} does not restore: {}", case.fen, snap_diff(&before, &after)));
        }
        let _ = b.is_move_legal(*mv);
        let after = eng::snap(&b);
        if after != before {
            return Err(format!("is_move_legal({u}) in {} does not restore: {}", case.fen, snap_diff(&before, &after)));
        }
        ctx.evals(1);
        let m = Mv::parse(&u);
        let is_legal = m.map_or(false, |m| legal.contains(&m));
        let mut nt = false;
        if !is_legal {
            illegal += 1;
            ctx.class("pseudo_legal_but_illegal");
            nt = true;
        }
        if let Some(m) = m {
            if p.board[m.from as usize].is_some() {
                if p.is_castle(m) {
                    ctx.class("castle");
                    nt = true;
                } else if p.is_ep(m) {
                    ctx.class("en_passant");
                    nt = true;
                } else if m.promo.is_some() {
                    ctx.class("promotion");
                    nt = true;
                }
            }
        }
        if p.half >= 128 {
            ctx.class("clock_ge_128");
            nt = true;
        }
        if p.full == 0 {
            ctx.class("full_move_number_0");
        }
        if nt {
            ctx.nontrivial((p.fen4(), p.half, u));
        }
    }
    if eng::eng_fen(&b) != before_fen {
        return Err(format!("FEN text changed after the sweep in {}", case.fen));
    }
    ctx.sample(|| serde_json::json!({"fen": case.fen, "pseudo_legal": pseudo.len(), "illegal_among_them": illegal}));
    Ok(())
}

pub fn check_line(case: &Game, ctx: &mut Ctx) -> Result<(), String> {
    let g = case.to_gamep()?;
    let mut b = eng::board_from_pos(&g.start);
    let mut snaps: Vec<Snap> = Vec::new();
    let mut made: Vec<Move> = Vec::new();
    for (i, &m) in g.moves.iter().enumerate() {
        snaps.push(eng::snap(&b));
        let mv = eng::find_move(&mut b, m).ok_or_else(|| format!("legal move {m} is not offered by the engine in {} (see C01)", g.positions[i].fen()))?;
        b.make(mv);
        made.push(mv);
    }
    for i in (0..made.len()).rev() {
        b.unmake(made[i]);
        let now = eng::snap(&b);
        if now != snaps[i] {
            return Err(format!("unmaking the line {:?} from {}: after taking back ply {} ({}) the position is not the one before it: {}", case.moves, case.start, i + 1, case.moves[i], snap_diff(&snaps[i], &now)));
        }
        ctx.evals(1);
    }
    if made.len() >= 2 {
        ctx.nontrivial((case.start.clone(), case.moves.clone()));
    }
    ctx.class(if made.len() >= 20 { "line_ge_20" } else { "line_lt_20" });
    ctx.sample(|| serde_json::json!({"start": case.start, "moves": case.moves}));
    Ok(())
}
