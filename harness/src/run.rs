//! Driver: proptest runner per part, sharding over child processes, evidence and replay files.

use std::cell::RefCell;
use std::collections::hash_map::DefaultHasher;
use std::collections::{BTreeMap, BTreeSet};
use std::fmt::Debug;
use std::hash::{Hash, Hasher};
use std::io::Write;
use std::panic::{catch_unwind, AssertUnwindSafe};
use std::path::{Path, PathBuf};

use proptest::strategy::{Strategy, ValueTree};
use proptest::test_runner::{Config, RngAlgorithm, TestCaseError, TestError, TestRng, TestRunner};
use serde::de::DeserializeOwned;
use serde::{Deserialize, Serialize};
use serde_json::{json, Value};

pub fn verif_root() -> PathBuf {
    if let Ok(r) = std::env::var("VERIF_ROOT") {
        return PathBuf::from(r);
    }
    PathBuf::from("/verif")
}

#[derive(Clone, Copy, PartialEq, Eq, Debug, Serialize, Deserialize)]
pub enum Tier {
    Quick,
    Thorough,
}

impl Tier {
    pub fn name(self) -> &'static str {
        match self {
            Tier::Quick => "quick",
            Tier::Thorough => "thorough",
        }
    }
}

#[derive(Clone, Debug)]
pub struct PartCfg {
    pub property: &'static str,
    pub part: &'static str,
    pub tier: Tier,
    pub cases: u32,
    pub seed: u64,
    pub shard: u32,
    pub nshards: u32,
    pub journal: Option<PathBuf>,
    /// cases of this part take long (real searches, processes): shrink with a small budget
    pub expensive: bool,
}

#[derive(Clone, Debug, Default, Serialize, Deserialize)]
pub struct Violation {
    pub part: String,
    pub message: String,
    pub case: Value,
    /// true when the failure came from the harness itself (exit 2, never a VIOLATION line)
    pub harness_error: bool,
}

#[derive(Clone, Debug, Default, Serialize, Deserialize)]
pub struct PartOutcome {
    pub part: String,
    pub evaluations: u64,
    pub nontrivial: BTreeSet<u64>,
    pub classes: BTreeMap<String, u64>,
    pub samples: Vec<Value>,
    pub exhaustive: bool,
    #[serde(default)]
    pub supplementary: bool,
    pub violation: Option<Violation>,
    pub known_findings: Vec<String>,
    pub notes: Vec<String>,
}

/// Collector handed to every check; counts only until the first failure (the closure re-runs while shrinking).
pub struct Ctx {
    pub evaluations: u64,
    pub nontrivial: BTreeSet<u64>,
    pub classes: BTreeMap<String, u64>,
    pub samples: Vec<Value>,
    pub sample_budget: usize,
    pub counting: bool,
    /// occurrences of listed known findings met while exploring (reported as KNOWN-FINDING lines, never as violations)
    pub known: BTreeSet<String>,
    seen: u64,
}

impl Ctx {
    pub fn new() -> Ctx {
        Ctx { evaluations: 0, nontrivial: BTreeSet::new(), classes: BTreeMap::new(), samples: Vec::new(), sample_budget: 4, counting: true, known: BTreeSet::new(), seen: 0 }
    }
    pub fn eval(&mut self) {
        if self.counting {
            self.evaluations += 1;
        }
    }
    pub fn evals(&mut self, n: u64) {
        if self.counting {
            self.evaluations += n;
        }
    }
    pub fn class(&mut self, name: &str) {
        if self.counting {
            *self.classes.entry(name.to_string()).or_insert(0) += 1;
        }
    }
    pub fn class_n(&mut self, name: &str, n: u64) {
        if self.counting && n > 0 {
            *self.classes.entry(name.to_string()).or_insert(0) += n;
        }
    }
    /// Register a non-trivial case under a key that identifies it (distinctness is measured on this key).
    pub fn nontrivial<K: Hash>(&mut self, key: K) {
        if self.counting {
            let mut h = DefaultHasher::new();
            key.hash(&mut h);
            self.nontrivial.insert(h.finish());
        }
    }
    /// Keep a few actual cases: the first ones and then sparser and sparser later ones.
    pub fn sample<F: FnOnce() -> Value>(&mut self, f: F) {
        if !self.counting {
            return;
        }
        self.seen += 1;
        if self.samples.len() < self.sample_budget {
            self.samples.push(f());
        } else if self.seen.is_power_of_two() && self.seen >= 64 {
            let i = (self.seen.trailing_zeros() as usize) % self.sample_budget;
            self.samples[i] = f();
        }
    }
}

pub fn hash64<K: Hash>(k: K) -> u64 {
    let mut h = DefaultHasher::new();
    k.hash(&mut h);
    h.finish()
}

fn rng_for(cfg: &PartCfg) -> TestRng {
    let h1 = hash64((cfg.seed, cfg.property, cfg.part, cfg.shard, 0x9e37u32));
    let h2 = hash64((cfg.seed, cfg.property, cfg.part, cfg.shard, 0x79b9u32));
    let h3 = hash64((h1, h2, 1u8));
    let h4 = hash64((h1, h2, 2u8));
    let mut seed = [0u8; 32];
    seed[0..8].copy_from_slice(&h1.to_le_bytes());
    seed[8..16].copy_from_slice(&h2.to_le_bytes());
    seed[16..24].copy_from_slice(&h3.to_le_bytes());
    seed[24..32].copy_from_slice(&h4.to_le_bytes());
    TestRng::from_seed(RngAlgorithm::ChaCha, &seed)
}

pub const HARNESS_PREFIX: &str = "HARNESS:";

fn panic_message(p: Box<dyn std::any::Any + Send>) -> String {
    if let Some(s) = p.downcast_ref::<&str>() {
        s.to_string()
    } else if let Some(s) = p.downcast_ref::<String>() {
        s.clone()
    } else {
        "panic with non-string payload".to_string()
    }
}

/// Run `check` with panics turned into failures.
pub fn guarded<C, F: FnOnce() -> Result<(), String>>(_case: &C, f: F) -> Result<(), String> {
    match catch_unwind(AssertUnwindSafe(f)) {
        Ok(r) => r,
        Err(p) => Err(format!("panic: {}", panic_message(p))),
    }
}

/// Generic generated-input search: `strategy` draws raw values, `concretize` turns one into the
/// concrete, self-contained case (what is stored in replay files), `check` is the oracle.
pub fn run_part<R, C, S, FC, FK>(cfg: &PartCfg, strategy: S, concretize: FC, check: FK) -> PartOutcome
where
    R: Debug + Clone,
    C: Serialize + Debug,
    S: Strategy<Value = R>,
    FC: Fn(&R) -> C,
    FK: Fn(&C, &mut Ctx) -> Result<(), String>,
{
    let ctx = RefCell::new(Ctx::new());
    let config = Config {
        cases: cfg.cases,
        failure_persistence: None,
        // (a long_session case is thousands of searches: a dozen shrink steps at most)
        max_shrink_iters: if cfg.part == "long_session" { 12 } else if cfg.expensive { 60 } else { 4096 },
        max_global_rejects: 1,
        max_local_rejects: 65_536,
        source_file: None,
        ..Config::default()
    };
    let mut runner = TestRunner::new_with_rng(config, rng_for(cfg));
    let journal = cfg.journal.clone();
    // once the harness itself is in trouble (watchdog, bad case) stop executing cases: no point in shrinking that
    let harness_abort: RefCell<Option<String>> = RefCell::new(None);
    let result = runner.run(&strategy, |raw| {
        if let Some(m) = harness_abort.borrow().as_ref() {
            return Err(TestCaseError::fail(m.clone()));
        }
        let case = match catch_unwind(AssertUnwindSafe(|| concretize(&raw))) {
            Ok(c) => c,
            Err(p) => {
                ctx.borrow_mut().counting = false;
                return Err(TestCaseError::fail(format!("{HARNESS_PREFIX} generator panicked: {}", panic_message(p))));
            }
        };
        if let Some(j) = &journal {
            if let Ok(mut f) = std::fs::File::create(j) {
                let _ = f.write_all(serde_json::to_string(&json!({"part": cfg.part, "case": &case})).unwrap_or_default().as_bytes());
                let _ = f.sync_all();
            }
        }
        let r = {
            let mut c = ctx.borrow_mut();
            let before = c.evaluations;
            let r = guarded(&case, || check(&case, &mut c));
            if c.evaluations == before {
                // the check did not count finer-grained evaluations itself: the case is the unit
                c.eval();
            }
            r
        };
        match r {
            Ok(()) => Ok(()),
            Err(msg) => {
                ctx.borrow_mut().counting = false;
                if msg.contains(HARNESS_PREFIX) {
                    *harness_abort.borrow_mut() = Some(msg.clone());
                }
                Err(TestCaseError::fail(msg))
            }
        }
    });
    let ctx = ctx.into_inner();
    let mut out = PartOutcome {
        part: cfg.part.to_string(),
        evaluations: ctx.evaluations,
        nontrivial: ctx.nontrivial,
        classes: ctx.classes,
        samples: ctx.samples,
        known_findings: ctx.known.iter().cloned().collect(),
        ..PartOutcome::default()
    };
    match result {
        Ok(()) => {}
        Err(TestError::Fail(reason, _)) if reason.message().contains(HARNESS_PREFIX) => {
            out.violation = Some(Violation { part: cfg.part.to_string(), message: reason.message().to_string(), case: Value::Null, harness_error: true });
        }
        Err(TestError::Fail(reason, raw)) => {
            let case = concretize(&raw);
            // recompute the message on the shrunk case so that it describes exactly the stored case
            let mut scratch = Ctx::new();
            scratch.counting = false;
            let msg = match guarded(&case, || check(&case, &mut scratch)) {
                Err(m) => m,
                Ok(()) => format!("(not reproduced on re-run; first report: {})", reason.message()),
            };
            out.violation = Some(Violation {
                part: cfg.part.to_string(),
                harness_error: msg.contains(HARNESS_PREFIX),
                message: msg,
                case: serde_json::to_value(&case).unwrap_or(Value::Null),
            });
        }
        Err(TestError::Abort(reason)) => {
            out.violation = Some(Violation {
                part: cfg.part.to_string(),
                message: format!("{HARNESS_PREFIX} generator aborted: {}", reason.message()),
                case: Value::Null,
                harness_error: true,
            });
        }
    }
    out
}

/// Complete enumeration of a finite domain (no sampling, no shrinking needed: cases are reported as found).
pub fn run_exhaustive<C, I, FK>(cfg: &PartCfg, cases: I, check: FK) -> PartOutcome
where
    C: Serialize + Debug,
    I: Iterator<Item = C>,
    FK: Fn(&C, &mut Ctx) -> Result<(), String>,
{
    let mut ctx = Ctx::new();
    let mut out = PartOutcome { part: cfg.part.to_string(), exhaustive: true, ..PartOutcome::default() };
    for case in cases {
        let before = ctx.evaluations;
        let r = guarded(&case, || check(&case, &mut ctx));
        if ctx.evaluations == before {
            ctx.eval();
        }
        if let Err(msg) = r {
            out.violation = Some(Violation {
                part: cfg.part.to_string(),
                harness_error: msg.contains(HARNESS_PREFIX),
                message: msg,
                case: serde_json::to_value(&case).unwrap_or(Value::Null),
            });
            break;
        }
    }
    out.evaluations = ctx.evaluations;
    out.nontrivial = ctx.nontrivial;
    out.classes = ctx.classes;
    out.samples = ctx.samples;
    out
}

/// Re-execute one stored case through the same oracle, bypassing proptest.
pub fn replay_case<C, FK>(case: &Value, check: FK) -> Result<(), String>
where
    C: DeserializeOwned + Debug,
    FK: Fn(&C, &mut Ctx) -> Result<(), String>,
{
    let c: C = serde_json::from_value(case.clone()).map_err(|e| format!("{HARNESS_PREFIX} cannot decode replay case: {e}"))?;
    let mut ctx = Ctx::new();
    guarded(&c, || check(&c, &mut ctx))
}

pub struct Part {
    pub name: &'static str,
    pub quick: u32,
    pub thorough: u32,
    /// parts that drive real threads / many cores themselves are run in one shard only
    pub single_shard: bool,
    /// sampled add-on to an otherwise complete enumeration (does not count against `exhaustive`)
    pub supplementary: bool,
    pub run: fn(&PartCfg) -> PartOutcome,
    pub replay: fn(&Value) -> Result<(), String>,
}

pub struct Property {
    pub id: &'static str,
    pub level: &'static str,
    pub rule: &'static str,
    pub assumptions: &'static [&'static str],
    pub parts: Vec<Part>,
}

#[derive(Serialize, Deserialize, Debug, Default)]
pub struct ShardResult {
    pub shard: u32,
    pub parts: Vec<PartOutcome>,
}

pub fn run_shard(prop: &Property, tier: Tier, seed: u64, shard: u32, nshards: u32, journal: Option<PathBuf>, only_part: Option<&str>) -> ShardResult {
    let mut res = ShardResult { shard, parts: Vec::new() };
    for part in &prop.parts {
        if let Some(o) = only_part {
            if o != part.name {
                continue;
            }
        }
        let total = match tier {
            Tier::Quick => part.quick,
            Tier::Thorough => part.thorough,
        };
        let (cases, active) = if part.single_shard {
            (total, shard == 0)
        } else if total == 0 {
            // complete enumerations split their domain over the shards themselves
            (0, true)
        } else {
            let base = total / nshards;
            let extra = if shard < total % nshards { 1 } else { 0 };
            (base + extra, base + extra > 0)
        };
        if !active {
            continue;
        }
        let cfg = PartCfg { property: prop.id, part: part.name, tier, cases, seed, shard, nshards, journal: journal.clone(), expensive: part.quick > 0 && part.quick <= 5_000 };
        let mut out = (part.run)(&cfg);
        out.supplementary = part.supplementary;
        let failed = out.violation.is_some();
        res.parts.push(out);
        if failed {
            break;
        }
    }
    res
}

pub fn write_json(path: &Path, v: &Value) -> std::io::Result<()> {
    if let Some(p) = path.parent() {
        std::fs::create_dir_all(p)?;
    }
    let tmp = path.with_extension("json.tmp");
    std::fs::write(&tmp, serde_json::to_string_pretty(v).unwrap_or_default())?;
    std::fs::rename(tmp, path)
}

#[derive(Deserialize, Debug, Clone)]
pub struct FindingEntry {
    pub status: String,
    pub property: String,
    pub signature: String,
    #[serde(default)]
    pub commit: Option<String>,
    pub what: String,
}

pub fn load_findings() -> Vec<FindingEntry> {
    let p = verif_root().join("known_findings.json");
    match std::fs::read_to_string(&p) {
        Ok(s) => serde_json::from_str(&s).unwrap_or_default(),
        Err(_) => Vec::new(),
    }
}

/// Shrink helper used by hand-written enumerations: minimise a Vec by removing elements while `fails` stays true.
pub fn shrink_vec<T: Clone>(mut v: Vec<T>, fails: &dyn Fn(&[T]) -> bool) -> Vec<T> {
    let mut chunk = v.len() / 2;
    while chunk >= 1 {
        let mut i = 0;
        while i + chunk <= v.len() {
            let mut cand = v.clone();
            cand.drain(i..i + chunk);
            if fails(&cand) {
                v = cand;
            } else {
                i += chunk;
            }
        }
        chunk /= 2;
    }
    v
}

/// proptest strategies produce values through a `ValueTree`; this draws one value (used by fuzz targets and tools).
pub fn draw_one<S: Strategy>(s: &S, runner: &mut TestRunner) -> S::Value {
    s.new_tree(runner).expect("strategy").current()
}
