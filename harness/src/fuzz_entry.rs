//! Entry functions of the libFuzzer targets (harness/fuzz). Each decodes the bytes into structured
//! input and runs the SAME oracles as the proptest parts; Err(message) = property violated, a panic
//! inside the code under test = crash (also a finding for the "never panics" properties).

use std::io::Read;
use std::str::FromStr;

use inkayaku_board::Bitboard;
use inkayaku_core::fen::Fen;
use inkayaku_pgn::reader::PgnRawParser;
use inkayaku_uci::parser::CommandParser;
use inkayaku_uci::UciMove;

use crate::eng;
use crate::gen;
use crate::run::Ctx;

pub fn fen(data: &[u8]) -> Result<(), String> {
    let text = String::from_utf8_lossy(data).to_string();
    let r = Fen::from_str(&text);
    let v = Fen::is_valid(&text);
    if r.is_ok() != v {
        return Err(format!("Fen::from_str and Fen::is_valid disagree on {text:?}"));
    }
    let b = Bitboard::from_fen_string(&text);
    if b.is_ok() != v {
        return Err(format!("Bitboard::from_fen_string and Fen::is_valid disagree on {text:?}"));
    }
    if let Ok(b) = b {
        // whatever was accepted must survive writing and re-reading
        let written = Fen::from(&b).fen;
        let b2 = Bitboard::from_fen_string(&written).map_err(|e| format!("the writer's output {written:?} for accepted input {text:?} is rejected: {e:?}"))?;
        let (s1, s2) = (eng::snap(&b), eng::snap(&b2));
        if s1.pieces != s2.pieces || s1.rights != s2.rights || s1.ep != s2.ep || s1.turn != s2.turn || s1.half != s2.half || s1.full != s2.full {
            return Err(format!("accepted input {text:?} is written as {written:?}, which reads back as a different position"));
        }
    }
    Ok(())
}

pub fn uci_line(data: &[u8]) -> Result<(), String> {
    let text = String::from_utf8_lossy(data).to_string();
    for line in text.split('\n') {
        let _ = CommandParser::new(line).parse();
        let _ = UciMove::from_str(line);
        for tok in line.split(' ') {
            if let Ok(m) = UciMove::from_str(tok) {
                let shown = m.to_string();
                let again = UciMove::from_str(&shown).map_err(|e| format!("formatted move {shown:?} (from token {tok:?}) does not parse: {e:?}"))?;
                if again != m {
                    return Err(format!("move token {tok:?} does not round-trip"));
                }
            }
        }
    }
    Ok(())
}

struct Sched<'a> {
    data: &'a [u8],
    pos: usize,
    sched: &'a [u8],
    i: usize,
}

impl<'a> Read for Sched<'a> {
    fn read(&mut self, buf: &mut [u8]) -> std::io::Result<usize> {
        if self.pos >= self.data.len() || buf.is_empty() {
            return Ok(0);
        }
        let want = if self.sched.is_empty() { buf.len() } else { (self.sched[self.i % self.sched.len()] as usize % 23) + 1 };
        self.i += 1;
        let n = want.min(buf.len()).min(self.data.len() - self.pos);
        buf[..n].copy_from_slice(&self.data[self.pos..self.pos + n]);
        self.pos += n;
        Ok(n)
    }
}

fn read_pgn(file: &[u8], chunk: usize, sched: &[u8]) -> Vec<String> {
    let mut out = Vec::new();
    for item in PgnRawParser::with_chunk_size(Sched { data: file, pos: 0, sched, i: 0 }, chunk) {
        match item {
            Ok(g) => {
                let mut tags: Vec<(String, String)> = g.tag_pairs.into_iter().collect();
                tags.sort();
                out.push(format!("{tags:?} {:?}", g.moves.iter().map(|m| (m.mv.clone(), m.annotation.clone())).collect::<Vec<_>>()));
            }
            Err(e) => out.push(format!("ERR {e:?}")),
        }
        // malformed input may make the iterator yield the same error forever: bound it
        if out.len() >= 40 {
            break;
        }
    }
    out
}

/// byte 0: chunk size, byte 1: number of schedule bytes, then the schedule, then the file
pub fn pgn_stream(data: &[u8]) -> Result<(), String> {
    if data.len() < 2 {
        return Ok(());
    }
    let chunk = (data[0] as usize % 64) + 1;
    let ns = (data[1] as usize % 8).min(data.len() - 2);
    let sched = &data[2..2 + ns];
    let file = &data[2 + ns..];
    let a = read_pgn(file, chunk, sched);
    let b = read_pgn(file, 8192, &[]);
    if a != b {
        let k = a.iter().zip(&b).position(|(x, y)| x != y).unwrap_or(a.len().min(b.len()));
        return Err(format!("reading {:?} with chunk {chunk} / schedule {sched:?} differs from one big read at item {}: {:?} vs {:?}", String::from_utf8_lossy(file), k + 1, a.get(k), b.get(k)));
    }
    Ok(())
}

/// bytes -> seed position + choice stream; all board-level oracles of C01 / C02 / C03 / C05(partly) / C06
pub fn board_ops(data: &[u8]) -> Result<(), String> {
    if data.len() < 4 {
        return Ok(());
    }
    let seeds = gen::seeds();
    let mut start = seeds[data[0] as usize % seeds.len()].clone();
    if data[1] & 1 == 1 {
        start = start.flip();
    }
    start.half = [0u64, 1, 50, 99, 100, 127, 128, 255, 1000, 3000][data[2] as usize % 10];
    start.full = [1u64, 2, 40, 500, 2400, 65_535, 1_000_000][data[3] as usize % 7];
    let choices: Vec<u16> = data[4..].chunks(2).take(120).map(|c| u16::from_le_bytes([c[0], *c.get(1).unwrap_or(&0)])).collect();
    let g = gen::play_from(start, &choices).to_game();
    let mut ctx = Ctx::new();
    crate::props::c01::check_along_game(&g, &mut ctx)?;
    crate::props::c02::check_game(&g, &mut ctx)?;
    crate::props::c03::check_line(&g, &mut ctx)?;
    crate::props::c06::check_incremental(&g, &mut ctx)?;
    crate::props::c06::check_same_key(&g, &mut ctx)?;
    let last = crate::props::PosCase { fen: g.to_gamep()?.last().fen() };
    crate::props::c01::check_movesets(&last, &mut ctx)?;
    crate::props::c03::check_sweep(&last, &mut ctx)?;
    crate::props::c05::check_status(&last, &mut ctx)?;
    Ok(())
}

pub fn run(target: &str, data: &[u8]) -> Result<(), String> {
    match target {
        "fen" => fen(data),
        "uci_line" => uci_line(data),
        "pgn_stream" => pgn_stream(data),
        "board_ops" => board_ops(data),
        other => Err(format!("HARNESS: unknown fuzz target {other}")),
    }
}
