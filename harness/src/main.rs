use std::collections::{BTreeMap, BTreeSet};
use std::path::PathBuf;
use std::process::{Command, Stdio};
use std::time::{Duration, Instant};

use serde_json::{json, Value};

use verif::props;
use verif::run::{self, hash64, load_findings, verif_root, Property, ShardResult, Tier, Violation, HARNESS_PREFIX};

fn usage() -> ! {
    eprintln!("usage: verif check <ID> <quick|thorough> | verif shard <ID> <tier> <seed> <i> <n> <out> [--journal f] [--part p] | verif replay <ID> <file> | verif selftest | verif list");
    std::process::exit(2)
}

fn tier_of(s: &str) -> Tier {
    match s {
        "quick" => Tier::Quick,
        "thorough" => Tier::Thorough,
        _ => usage(),
    }
}

fn seed_from_env() -> u64 {
    std::env::var("VERIF_SEED").ok().and_then(|s| s.trim().parse::<i64>().ok()).map(|v| v as u64).unwrap_or(0)
}

fn main() {
    let args: Vec<String> = std::env::args().collect();
    if args.len() < 2 {
        usage();
    }
    // the code under test panics on purpose-built inputs; keep stderr readable
    if std::env::var("VERIF_PANIC_TRACE").is_err() {
        std::panic::set_hook(Box::new(|_| {}));
    }
    match args[1].as_str() {
        "list" => {
            for p in props::all() {
                println!("{} {}", p.id, p.parts.iter().map(|x| x.name).collect::<Vec<_>>().join(","));
            }
        }
        "selftest" => match verif::refmodel::self_test() {
            Ok(()) => {
                let n = verif::gen::seeds().len();
                println!("reference model self-test ok; {n} seed positions sane");
            }
            Err(e) => {
                eprintln!("{HARNESS_PREFIX} reference model self-test failed: {e}");
                std::process::exit(2);
            }
        },
        "shard" => {
            if args.len() < 8 {
                usage();
            }
            let prop = props::by_id(&args[2]).unwrap_or_else(|| usage());
            let tier = tier_of(&args[3]);
            let seed: u64 = args[4].parse().unwrap_or(0);
            let i: u32 = args[5].parse().unwrap_or(0);
            let n: u32 = args[6].parse().unwrap_or(1);
            let out = PathBuf::from(&args[7]);
            let mut journal = None;
            let mut part = None;
            let mut k = 8;
            while k + 1 < args.len() {
                match args[k].as_str() {
                    "--journal" => journal = Some(PathBuf::from(&args[k + 1])),
                    "--part" => part = Some(args[k + 1].clone()),
                    _ => usage(),
                }
                k += 2;
            }
            let res = run::run_shard(&prop, tier, seed, i, n, journal, part.as_deref());
            let v = serde_json::to_value(&res).expect("shard result");
            run::write_json(&out, &v).expect("write shard result");
        }
        "replay" => {
            if args.len() < 4 {
                usage();
            }
            let prop = props::by_id(&args[2]).unwrap_or_else(|| usage());
            std::process::exit(replay_file(&prop, &PathBuf::from(&args[3]), true));
        }
        "check" => {
            if args.len() < 4 {
                usage();
            }
            let prop = props::by_id(&args[2]).unwrap_or_else(|| usage());
            std::process::exit(check(&prop, tier_of(&args[3])));
        }
        _ => usage(),
    }
}

/// returns 0 = passes, 1 = violation reproduced, 2 = harness problem
fn replay_file(prop: &Property, path: &PathBuf, verbose: bool) -> i32 {
    let text = match std::fs::read_to_string(path) {
        Ok(t) => t,
        Err(e) => {
            eprintln!("cannot read {}: {e}", path.display());
            return 2;
        }
    };
    let v: Value = match serde_json::from_str(&text) {
        Ok(v) => v,
        Err(e) => {
            eprintln!("cannot parse {}: {e}", path.display());
            return 2;
        }
    };
    let part_name = v.get("part").and_then(Value::as_str).unwrap_or("");
    let Some(part) = prop.parts.iter().find(|p| p.name == part_name) else {
        eprintln!("{}: unknown part {:?} for {}", path.display(), part_name, prop.id);
        return 2;
    };
    let case = v.get("case").cloned().unwrap_or(Value::Null);
    match (part.replay)(&case) {
        Ok(()) => {
            if verbose {
                println!("replay {}: property {} holds on this case", path.display(), prop.id);
            }
            0
        }
        Err(m) if m.contains(HARNESS_PREFIX) => {
            eprintln!("replay {}: {m}", path.display());
            2
        }
        Err(m) => {
            println!("replay {}: {m}", path.display());
            println!("VIOLATION property={} replay={}", prop.id, path.display());
            1
        }
    }
}

fn write_replay(prop: &Property, seed: u64, v: &Violation) -> PathBuf {
    let dir = verif_root().join("out");
    let _ = std::fs::create_dir_all(&dir);
    let h = hash64((&v.part, v.case.to_string()));
    let path = dir.join(format!("{}-{}-{:08x}.json", prop.id, seed, h as u32));
    let _ = run::write_json(&path, &json!({"property": prop.id, "part": v.part, "seed": seed, "message": v.message, "case": v.case}));
    path
}

fn check(prop: &Property, tier: Tier) -> i32 {
    let t0 = Instant::now();
    let seed = seed_from_env();
    let root = verif_root();
    if let Err(e) = verif::refmodel::self_test() {
        eprintln!("{HARNESS_PREFIX} reference model self-test failed: {e}");
        return 2;
    }
    let mut violations: Vec<(PathBuf, String)> = Vec::new();
    let mut harness_errors: Vec<String> = Vec::new();

    // 1. regression tier: committed reproductions of repaired defects must pass
    let regress_dir = root.join("regress").join(prop.id);
    let mut regress_count = 0u64;
    // VERIF_NO_REGRESS=1 is used by the sensitivity experiments only (is the generator able to find it by itself?)
    if std::env::var("VERIF_NO_REGRESS").is_err() {
    if let Ok(rd) = std::fs::read_dir(&regress_dir) {
        let mut files: Vec<PathBuf> = rd.filter_map(|e| e.ok().map(|e| e.path())).filter(|p| p.extension().map_or(false, |x| x == "json")).collect();
        files.sort();
        for f in files {
            regress_count += 1;
            match replay_file(prop, &f, false) {
                0 => {}
                1 => violations.push((f.clone(), "regression reproduction fails again".to_string())),
                _ => harness_errors.push(format!("regress file {} unusable", f.display())),
            }
        }
    }
    }

    // 2. shards
    let nshards: u32 = std::env::var("VERIF_SHARDS").ok().and_then(|s| s.parse().ok()).unwrap_or_else(|| std::thread::available_parallelism().map(|n| n.get() as u32).unwrap_or(8)).max(1);
    let exe = std::env::current_exe().expect("current exe");
    let tmp = root.join("out").join(format!(".shards-{}-{}", prop.id, std::process::id()));
    let _ = std::fs::create_dir_all(&tmp);
    let budget = Duration::from_secs(std::env::var("VERIF_WATCHDOG_S").ok().and_then(|s| s.parse().ok()).unwrap_or(match tier {
        Tier::Quick => 1500,
        Tier::Thorough => 6 * 3600,
    }));
    let mut children = Vec::new();
    for i in 0..nshards {
        let out = tmp.join(format!("shard-{i}.json"));
        let child = Command::new(&exe)
            .args(["shard", prop.id, tier.name(), &seed.to_string(), &i.to_string(), &nshards.to_string()])
            .arg(&out)
            .stdin(Stdio::null())
            .stdout(Stdio::null())
            // the code under test writes diagnostics to stderr (e.g. every rejected position command)
            .stderr(if std::env::var("VERIF_PANIC_TRACE").is_ok() { Stdio::inherit() } else { Stdio::null() })
            .spawn()
            .expect("spawn shard");
        children.push((i, child, out));
    }
    let mut results: Vec<ShardResult> = Vec::new();
    let mut inconclusive = false;
    for (i, mut child, out) in children {
        let status = loop {
            match child.try_wait() {
                Ok(Some(s)) => break Some(s),
                Ok(None) => {
                    if t0.elapsed() > budget {
                        let _ = child.kill();
                        let _ = child.wait();
                        break None;
                    }
                    std::thread::sleep(Duration::from_millis(20));
                }
                Err(_) => break None,
            }
        };
        match status {
            None => {
                eprintln!("shard {i}: watchdog expired after {:?} (inconclusive)", budget);
                inconclusive = true;
            }
            Some(s) if s.success() => match std::fs::read_to_string(&out).ok().and_then(|t| serde_json::from_str::<ShardResult>(&t).ok()) {
                Some(r) => results.push(r),
                None => harness_errors.push(format!("shard {i} wrote no result")),
            },
            Some(s) if s.code().is_some() => {
                // an ordinary non-zero exit is a panic outside any case (harness code), not a finding
                harness_errors.push(format!("shard {i} exited with {s} (harness panic; run with VERIF_PANIC_TRACE=1)"));
            }
            Some(s) => {
                // abnormal death (abort from a UB check, stack overflow, ...): re-run journaled to find the case
                eprintln!("shard {i} died ({s}); re-running with a journal to identify the case");
                let journal = tmp.join(format!("journal-{i}.json"));
                let out2 = tmp.join(format!("shard-{i}-rerun.json"));
                let st2 = Command::new(&exe)
                    .args(["shard", prop.id, tier.name(), &seed.to_string(), &i.to_string(), &nshards.to_string()])
                    .arg(&out2)
                    .arg("--journal")
                    .arg(&journal)
                    .stdin(Stdio::null())
                    .stdout(Stdio::null())
                    .stderr(Stdio::null())
                    .status();
                let died_again = st2.map(|s| !s.success()).unwrap_or(true);
                if died_again {
                    if let Some(j) = std::fs::read_to_string(&journal).ok().and_then(|t| serde_json::from_str::<Value>(&t).ok()) {
                        let v = Violation {
                            part: j.get("part").and_then(Value::as_str).unwrap_or("").to_string(),
                            message: format!("process died ({s}) while executing this case (abort / UB check / stack overflow)"),
                            case: j.get("case").cloned().unwrap_or(Value::Null),
                            harness_error: false,
                        };
                        let p = write_replay(prop, seed, &v);
                        violations.push((p, v.message.clone()));
                    } else {
                        harness_errors.push(format!("shard {i} died ({s}) and left no journal"));
                    }
                } else if let Some(r) = std::fs::read_to_string(&out2).ok().and_then(|t| serde_json::from_str::<ShardResult>(&t).ok()) {
                    eprintln!("shard {i}: death not reproduced on re-run; using re-run result");
                    results.push(r);
                } else {
                    harness_errors.push(format!("shard {i} died ({s}) and re-run gave no result"));
                }
            }
        }
    }
    let _ = std::fs::remove_dir_all(&tmp);

    // 3. merge
    let mut evaluations = regress_count;
    let mut nontrivial: BTreeSet<u64> = BTreeSet::new();
    let mut classes: BTreeMap<String, u64> = BTreeMap::new();
    let mut samples: Vec<Value> = Vec::new();
    let mut per_part: BTreeMap<String, (u64, BTreeSet<u64>, bool, bool)> = BTreeMap::new();
    let mut known_lines: BTreeSet<String> = BTreeSet::new();
    let mut notes: BTreeSet<String> = BTreeSet::new();
    for r in &results {
        for p in &r.parts {
            evaluations += p.evaluations;
            let e = per_part.entry(p.part.clone()).or_insert((0, BTreeSet::new(), true, false));
            e.0 += p.evaluations;
            e.2 &= p.exhaustive;
            e.3 |= p.supplementary;
            for k in &p.nontrivial {
                e.1.insert(*k);
                nontrivial.insert(hash64((&p.part, *k)));
            }
            for (c, n) in &p.classes {
                *classes.entry(format!("{}:{}", p.part, c)).or_insert(0) += n;
            }
            if r.shard == 0 || samples.len() < 3 {
                for s in p.samples.iter().take(3) {
                    if samples.len() < 24 {
                        samples.push(json!({"part": p.part, "case": s}));
                    }
                }
            }
            for k in &p.known_findings {
                known_lines.insert(k.clone());
            }
            for n in &p.notes {
                notes.insert(n.clone());
            }
            if let Some(v) = &p.violation {
                if v.harness_error {
                    harness_errors.push(format!("{}: {}", v.part, v.message));
                } else {
                    let path = write_replay(prop, seed, v);
                    violations.push((path, v.message.clone()));
                }
            }
        }
    }
    let findings = load_findings();
    for k in &known_lines {
        if findings.iter().any(|f| f.status == "known" && f.property == prop.id && k.contains(&f.signature)) {
            println!("KNOWN-FINDING: property={} {}", prop.id, k);
        } else {
            // a finding signature that is not listed is an ordinary violation
            let v = Violation { part: "known-finding-probe".into(), message: format!("unlisted finding: {k}"), case: json!({"signature": k}), harness_error: false };
            let path = write_replay(prop, seed, &v);
            violations.push((path, v.message));
        }
    }

    // 4. thorough tier: coverage-guided deepening of the byte-level / board-level oracles
    let mut fuzz_json = Value::Null;
    if tier == Tier::Thorough && violations.is_empty() && std::env::var("VERIF_NO_FUZZ").is_err() {
        if let Some(target) = props::fuzz_target_of(prop.id) {
            match run_fuzz(prop, target, seed) {
                Ok((runs, secs, None)) => fuzz_json = json!({"target": target, "engine": "libFuzzer (cargo-fuzz, -fork)", "executions": runs, "seconds": secs, "crashes": 0}),
                Ok((runs, secs, Some(bytes))) => {
                    fuzz_json = json!({"target": target, "executions": runs, "seconds": secs, "crashes": 1});
                    let case = props::FuzzCase { target: target.to_string(), bytes_hex: props::hex(&bytes) };
                    let mut scratch = run::Ctx::new();
                    let msg = match run::guarded(&case, || props::check_fuzz_case(&case, &mut scratch)) {
                        Err(m) => m,
                        Ok(()) => "libFuzzer reported a crash that does not reproduce in-process (sanitizer finding?)".to_string(),
                    };
                    let v = Violation { part: format!("fuzz_corpus_{target}"), message: msg, case: serde_json::to_value(&case).unwrap_or(Value::Null), harness_error: false };
                    let path = write_replay(prop, seed, &v);
                    violations.push((path, v.message));
                }
                Err(e) => harness_errors.push(format!("fuzz stage: {e}")),
            }
        }
    }

    let exhaustive_all = !per_part.is_empty() && per_part.values().all(|p| p.2 || p.3) && per_part.values().any(|p| p.2);
    let parts_json: BTreeMap<String, Value> = per_part.iter().map(|(k, v)| (k.clone(), json!({"evaluations": v.0, "distinct_nontrivial": v.1.len(), "exhaustive": v.2, "supplementary_sampling": v.3}))).collect();
    let wall = t0.elapsed().as_secs_f64();
    let evidence = json!({
        "property_id": prop.id,
        "tier": tier.name(),
        "seed": seed as i64,
        "level": prop.level,
        "coverage": {
            "evaluations": evaluations,
            "distinct_nontrivial": nontrivial.len(),
            "rule": prop.rule,
            "samples": samples,
            "exhaustive": exhaustive_all,
            "parts": parts_json,
            "classes": classes,
            "regression_replays": regress_count,
            "shards": nshards,
            "known_findings_reported": known_lines.iter().collect::<Vec<_>>(),
            "notes": notes.iter().collect::<Vec<_>>(),
            "fuzz": fuzz_json,
        },
        "assumptions": prop.assumptions,
        "wall_s": wall,
        "violations": violations.len(),
    });
    if let Err(e) = run::write_json(&root.join("evidence").join(format!("{}.json", prop.id)), &evidence) {
        eprintln!("cannot write evidence: {e}");
        return 2;
    }

    for (path, msg) in &violations {
        let first = msg.lines().next().unwrap_or("");
        println!("{}: {}", prop.id, first);
        println!("VIOLATION property={} replay={}", prop.id, path.display());
    }
    if !violations.is_empty() {
        return 1;
    }
    if !harness_errors.is_empty() || inconclusive {
        for e in &harness_errors {
            eprintln!("{HARNESS_PREFIX} {e}");
        }
        return 2;
    }
    println!("{} {}: held on {} evaluations ({} distinct non-trivial), {:.1}s", prop.id, tier.name(), evaluations, nontrivial.len(), wall);
    0
}

/// Runs the libFuzzer target for a bounded time on a fresh copy of the committed corpus.
/// Ok((executions, seconds, Some(crashing input))) when libFuzzer stopped on a crash.
fn run_fuzz(prop: &Property, target: &str, seed: u64) -> Result<(u64, f64, Option<Vec<u8>>), String> {
    let root = verif_root();
    let work = root.join("out").join(format!(".fuzz-{}-{}", prop.id, std::process::id()));
    let corpus = work.join("corpus");
    let artifacts = work.join("artifacts");
    std::fs::create_dir_all(&corpus).map_err(|e| e.to_string())?;
    std::fs::create_dir_all(&artifacts).map_err(|e| e.to_string())?;
    if let Ok(rd) = std::fs::read_dir(root.join("corpus").join(target)) {
        for e in rd.flatten() {
            let _ = std::fs::copy(e.path(), corpus.join(e.file_name()));
        }
    }
    let harness = root.join("harness");
    if !harness.join("fuzz/Cargo.lock").exists() {
        let _ = std::fs::copy(harness.join("Cargo.lock"), harness.join("fuzz/Cargo.lock"));
    }
    let secs: u64 = std::env::var("VERIF_FUZZ_SECONDS").ok().and_then(|s| s.parse().ok()).unwrap_or(240);
    let t0 = Instant::now();
    let out = Command::new("cargo")
        .current_dir(&harness)
        .env("CARGO_NET_OFFLINE", "true")
        .env("RUSTFLAGS", "--cfg inkayaku_verif")
        .args(["+nightly", "fuzz", "run", "--fuzz-dir", "fuzz", target])
        .arg(&corpus)
        .arg("--")
        .arg(format!("-seed={}", if seed == 0 { 1 } else { seed % 4_000_000_000 }))
        .arg(format!("-max_total_time={secs}"))
        .arg("-fork=12")
        .arg("-len_control=0")
        .arg("-max_len=2048")
        .arg("-timeout=30")
        .arg(format!("-artifact_prefix={}/", artifacts.display()))
        .stdin(Stdio::null())
        .output()
        .map_err(|e| format!("cannot start cargo fuzz: {e}"))?;
    let log = String::from_utf8_lossy(&out.stderr).to_string();
    let _ = std::fs::write(root.join("out").join(format!("fuzz-{}.log", prop.id)), &log);
    let mut runs = 0u64;
    for line in log.lines() {
        if let Some(rest) = line.strip_prefix('#') {
            if let Some(n) = rest.split(|c: char| !c.is_ascii_digit()).next().and_then(|x| x.parse::<u64>().ok()) {
                runs = runs.max(n);
            }
        }
    }
    let elapsed = t0.elapsed().as_secs_f64();
    let mut crash: Option<Vec<u8>> = None;
    if let Ok(rd) = std::fs::read_dir(&artifacts) {
        let mut files: Vec<PathBuf> = rd.flatten().map(|e| e.path()).filter(|p| p.file_name().map_or(false, |n| { let n = n.to_string_lossy(); n.starts_with("crash-") || n.starts_with("oom-") || n.starts_with("timeout-") })).collect();
        files.sort();
        // timeouts / ooms are inconclusive, only crashes are findings
        if let Some(f) = files.iter().find(|p| p.file_name().map_or(false, |n| n.to_string_lossy().starts_with("crash-"))) {
            crash = std::fs::read(f).ok();
        }
    }
    let _ = std::fs::remove_dir_all(&work);
    if crash.is_none() && !out.status.success() {
        let tail: Vec<&str> = log.lines().rev().take(6).collect();
        return Err(format!("cargo fuzz ended with {} without a crash artefact: {:?}", out.status, tail));
    }
    Ok((runs, elapsed, crash))
}
