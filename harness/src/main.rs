fn main() { println!("hello"); }
