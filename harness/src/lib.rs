pub mod eng;
pub mod fuzz_entry;
pub mod engsess;
pub mod gen;
pub mod props;
pub mod refmodel;
pub mod refsearch;
pub mod run;
