#![no_main]
use libfuzzer_sys::fuzz_target;

fuzz_target!(|data: &[u8]| {
    if let Err(m) = verif::fuzz_entry::run("uci_line", data) {
        panic!("PROPERTY VIOLATION: {m}");
    }
});
